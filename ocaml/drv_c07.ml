(* drv_c07.ml -- model side of the ants cases (C07, C08): replay of an event history that
   the python check derived from the implementation's log.

   antsrun <fixed|orig> <urg 0|1> <N> <ntasks> <task>... <ev>...
     task: <send>,<T>,<R>,<discard>,<onerr>|<dur>:<honours>:<val>:<err>[:<cancels>]|...   (as for cmd/ftants)
     ev:   <t>:S:<k> | <t>:P:<k> | <t>:Q:<k>:<a>:<seq>[:<lo>] | <t>:H:<k>:<a> | <t>:R:<k>:<a>:<saw>
           | <t>:U:<k>:<a> | <t>:D:<k>:<via> | <t>:G:<k>          saw, via in {0,1,?}
           | <t>:C:0   the dispatchers' parent context is cancelled (AnParentCancel)
           | <t>:X:<k>:<a>   the handler of (k, a), about to return, cancels it: AnParentCancel, applied only
                             when that handler is due to return now (it is a running slot with r = now)
   Events are grouped by their instant t (ascending).  Between instants the driver applies
   AnAdvance (must be accepted: with urg=1 the model refuses to pass a due time).  Within
   an instant it repeatedly applies the first event of the bag that [an_step] accepts.  Q
   (enqueue of the inner callback) is only a hint "not before t": it stays pending until
   the model accepts it, and Q events are applied in the order of the handler starts in the
   log (the inner channel is FIFO): a Q is applied only when at least <lo> Q events have been
   applied, lo = number of handler starts stamped strictly earlier than this callback's
   handler start (the log order of starts within ONE instant is the order in which the inner
   workers reached the log mutex, not the order in which they received from the channel, so
   it does not constrain the replay; lo defaults to seq = strict log order).  Every other event must be accepted
   within its instant, otherwise the answer is REJECT.  A '?' (a same-instant tie the log
   cannot resolve) is enumerated: the answer is then the SET of results.
   antscoq ... : same arguments; prints the accepted history as a Coq term. *)
open Model
open Conv

type ev = { t : z; kind : char; k : int; a : int; seq : int; lo : int; flag : char; txt : string }

let zlt a b = (Z.compare a b) = Lt
let zeq a b = (Z.compare a b) = Eq

let parse_err (s : string) : an_err =
  let v = int_of_string s in
  (* codes >= 101: a handler returns, as its OWN error, an error whose identity the pool uses itself (cmd/ftants herr):
     the discard error of another pool, context.DeadlineExceeded, context.Canceled; 104 = a wrapped discard error *)
  if v = 0 then AnNil else if v = 101 then AnDiscard else if v = 102 then AnDeadline else if v = 103 then AnCanceled
  else AnE (z_of_int v)

let parse_task (tok : string) : an_opts =
  match String.split_on_char '|' tok with
  | hd :: behs ->
    (match String.split_on_char ',' hd with
     | [_send; tt; r; d; e] ->
       let bl = List.map (fun b -> match String.split_on_char ':' b with
           | [dur; h; v; er] | [dur; h; v; er; _] ->
             { ab_dur = z_of_string dur; ab_honours = (h = "1");
               ab_val = (if int_of_string v < 0 then None else Some (z_of_string v));
               ab_err = parse_err er }
           | _ -> failwith "bad behaviour") behs in
       { ao_T = z_of_string tt; ao_R = nat_of_int (int_of_string r); ao_discard = (d = "1");
         ao_onerr = (e = "1"); ao_behs = bl }
     | _ -> failwith "bad task header")
  | [] -> failwith "bad task"

let parse_ev (tok : string) : ev =
  match String.split_on_char ':' tok with
  | t :: kind :: k :: rest ->
    let base = { t = z_of_string t; kind = kind.[0]; k = int_of_string k; a = 0; seq = 0; lo = 0; flag = ' '; txt = tok } in
    (match kind.[0], rest with
     | ('S' | 'P' | 'G' | 'C'), [] -> base
     | 'Q', [a; seq] -> { base with a = int_of_string a; seq = int_of_string seq; lo = int_of_string seq }
     | 'Q', [a; seq; lo] -> { base with a = int_of_string a; seq = int_of_string seq; lo = int_of_string lo }
     | ('H' | 'U' | 'X'), [a] -> { base with a = int_of_string a }
     | 'R', [a; saw] -> { base with a = int_of_string a; flag = saw.[0] }
     | 'D', [via] -> { base with flag = via.[0] }
     | _ -> failwith ("bad event " ^ tok))
  | _ -> failwith ("bad event " ^ tok)

let show_err = function AnNil -> "nil" | AnE z -> "E" ^ string_of_z z | AnDeadline -> "DE" | AnDiscard -> "DISC" | AnCanceled -> "CANCELED"
let show_val = function None -> "nil" | Some z -> string_of_z z
let show_pair (v, e) = show_val v ^ "/" ^ show_err e
let show_phase = function
  | AnUnsent -> "unsent" | AnQueued -> "queued" | AnEnq (_, _) -> "enq" | AnWait (_, _) -> "wait"
  | AnDone -> "done" | AnDiscarded -> "disc"

let show_task (s : an_state) (k : int) : string =
  let t = an_tk s (nat_of_int k) in
  let lst f l = "[" ^ String.concat ";" (List.rev_map f l) ^ "]" in
  Printf.sprintf "k=%d,%s,inv=%d,dec=%d,f=%s,g=%s,oe=%s,rel=%s,pk=%s,B=%s,L=%s,hr=%s"
    k (show_phase (at_phase t)) (List.length (at_inv t)) (int_of_nat (an_dec_attempt s (nat_of_int k)))
    (show_pair (at_fields t))
    (lst (fun (p, tm) -> show_pair p ^ "@" ^ string_of_z tm) (at_get2 t))
    (lst (fun (e, tm) -> show_err e ^ "@" ^ string_of_z tm) (at_onerr t))
    (lst string_of_z (at_rel t))
    (string_of_z (at_pickup t)) (string_of_z (at_blocked t)) (string_of_z (at_late t))
    (lst (fun ((((a, p), saw), tm), _) -> Printf.sprintf "%d:%s:%d@%s" (int_of_nat a) (show_pair p) (if saw then 1 else 0) (string_of_z tm)) (at_ret t))

exception Reject of string

(* one replay with '?' flags already resolved; returns final state and accepted history (reversed) *)
let replay (cfg : an_cfg) (tasks : an_opts array) (evs : ev list) : an_state * an_event list =
  let s = ref an_init and hist = ref [] and pending = ref [] and next_seq = ref 0 in
  let apply e = match an_step cfg !s e with
    | Some s' -> s := s'; hist := e :: !hist; true
    | None -> false in
  let to_event (x : ev) : an_event option =
    let k = nat_of_int x.k and a = nat_of_int x.a in
    match x.kind with
    | 'S' -> if int_of_nat (an_next !s) = x.k && x.k < Array.length tasks then Some (AnSend tasks.(x.k)) else None
    | 'P' -> Some (AnPick k)
    | 'Q' -> if x.lo > !next_seq then None
      else (match at_phase (an_tk !s k) with
          | AnEnq (a', _) when int_of_nat a' = x.a -> Some (AnEnqueue k)
          | _ -> None)
    | 'H' -> Some (AnStart (k, a))
    | 'R' -> Some (AnReturn (k, a, x.flag = '1'))
    | 'U' -> Some (AnPublish (k, a))
    | 'D' -> Some (AnDecide (k, x.flag = '1'))
    | 'G' -> Some (AnGet2 k)
    | 'C' -> Some AnParentCancel
    | 'X' ->
      if List.exists (function AnRun (k', a', _, r, _) -> k' = k && a' = a && zeq r (an_now !s) | _ -> false) (an_workers !s)
      then Some AnParentCancel else None
    | _ -> None in
  let rec drain () =
    let rec pick before = function
      | [] -> false
      | x :: rest ->
        (match to_event x with
         | Some e when apply e ->
           if x.kind = 'Q' then incr next_seq;
           pending := List.rev_append before rest; true
         | _ -> pick (x :: before) rest) in
    if pick [] !pending then drain () in
  let rec groups = function
    | [] -> ()
    | (x :: _) as l ->
      let t = x.t in
      let now = an_now !s in
      if zlt t now then raise (Reject ("time goes backwards at " ^ x.txt));
      if zlt now t then
        (if not (apply (AnAdvance (Z.sub t now))) then
           raise (Reject (Printf.sprintf "advance %s->%s refused: an instantaneous step is enabled or a due time would be passed (pending %s)"
                            (string_of_z now) (string_of_z t) (String.concat " " (List.map (fun p -> p.txt) !pending)))));
      let rec split acc = function
        | y :: r when zeq y.t t -> split (y :: acc) r
        | r -> (List.rev acc, r) in
      let (grp, rest) = split [] l in
      pending := !pending @ grp;
      drain ();
      (match List.filter (fun p -> p.kind <> 'Q') !pending with
       | p :: _ -> raise (Reject ("event not enabled: " ^ p.txt))
       | [] -> ());
      groups rest in
  groups evs;
  (match !pending with p :: _ -> raise (Reject ("enqueue never enabled: " ^ p.txt)) | [] -> ());
  (!s, !hist)

(* ---- complete search, used only when the greedy replay above rejects.
   Within one instant the greedy drain commits to the first enabled event of the bag; the Go runtime resolved the
   same-instant order some other way (e.g. at the instant a parent context is cancelled dozens of steps of several
   tasks share one stamp), and a committed choice (which callback enters the FIFO inner channel first) can make a
   later event of the log impossible although another order of the SAME events is accepted.  The search explores,
   depth first, every order in which the enabled events of an instant can be applied (maximal progress: while some
   event of the bag is enabled one of them is applied; the instant is complete when no event is enabled and only
   enqueue hints remain), continuing into the following instants and backtracking across them.  Nodes with the same
   set of remaining events and the same operational state (phases, fields, channels, workers) are explored once.
   The answer is a history accepted by [an_step] event by event, exactly as in the greedy case. *)
exception Budget

let replay_search (cfg : an_cfg) (tasks : an_opts array) (evs : ev list) : (an_state * an_event list) option =
  let nt = Array.length tasks in
  let opkey (st : an_state) : string =
    Marshal.to_string
      (List.init nt (fun k -> let t = an_tk st (nat_of_int k) in (at_phase t, at_fields t, at_chan t)),
       an_tchan st, an_sendq st, an_active st, an_ichan st, an_workers st, an_pc st, an_next st) [] in
  let to_event (s : an_state) (next_seq : int) (x : ev) : an_event option =
    let k = nat_of_int x.k and a = nat_of_int x.a in
    match x.kind with
    | 'S' -> if int_of_nat (an_next s) = x.k && x.k < nt then Some (AnSend tasks.(x.k)) else None
    | 'P' -> Some (AnPick k)
    | 'Q' -> if x.lo > next_seq then None
      else (match at_phase (an_tk s k) with
          | AnEnq (a', _) when int_of_nat a' = x.a -> Some (AnEnqueue k)
          | _ -> None)
    | 'H' -> Some (AnStart (k, a))
    | 'R' -> Some (AnReturn (k, a, x.flag = '1'))
    | 'U' -> Some (AnPublish (k, a))
    | 'D' -> Some (AnDecide (k, x.flag = '1'))
    | 'G' -> Some (AnGet2 k)
    | 'C' -> Some AnParentCancel
    | 'X' ->
      if List.exists (function AnRun (k', a', _, r, _) -> k' = k && a' = a && zeq r (an_now s) | _ -> false) (an_workers s)
      then Some AnParentCancel else None
    | _ -> None in
  (* instants *)
  let rec split_groups (l : (int * ev) list) : (int * ev) list list =
    match l with
    | [] -> []
    | (_, x) :: _ ->
      let rec sp acc = function
        | ((_, y) as p) :: r when zeq y.t x.t -> sp (p :: acc) r
        | r -> (List.rev acc, r) in
      let (g, rest) = sp [] l in
      g :: split_groups rest in
  let groups = Array.of_list (split_groups (List.mapi (fun i x -> (i, x)) evs)) in
  let visited : (int * int list * string, unit) Hashtbl.t = Hashtbl.create 4096 in
  let nodes = ref 0 in
  (* gi = index of the next group to open; pending = events of opened groups not applied yet *)
  let rec open_group (s : an_state) hist (pending : (int * ev) list) nseq gi =
    if gi >= Array.length groups then (if pending = [] then Some (s, hist) else None)
    else
      let grp = groups.(gi) in
      let t = (snd (List.hd grp)).t in
      let now = an_now s in
      if zlt t now then None
      else
        let adv = if zlt now t then
            (let e = AnAdvance (Z.sub t now) in
             match an_step cfg s e with Some s' -> Some (s', e :: hist) | None -> None)
          else Some (s, hist) in
        match adv with
        | None -> None
        | Some (s', hist') -> instant s' hist' (pending @ grp) nseq (gi + 1)
  and instant (s : an_state) hist (pending : (int * ev) list) nseq gi =
    incr nodes;
    if !nodes > 60000 then raise Budget;
    let key = (gi, List.map fst pending, opkey s) in
    if Hashtbl.mem visited key then None
    else begin
      Hashtbl.add visited key ();
      let any_enabled = ref false in
      let rec try_each before = function
        | [] -> None
        | ((_, x) as p) :: rest ->
          (match to_event s nseq x with
           | Some e ->
             (match an_step cfg s e with
              | Some s' ->
                any_enabled := true;
                (match instant s' (e :: hist) (List.rev_append before rest) (if x.kind = 'Q' then nseq + 1 else nseq) gi with
                 | Some r -> Some r
                 | None ->
                   (* a read (AnGet2) only appends to the ghost log at_get2: once enabled it stays enabled and it neither
                      enables nor disables any other step, so applying it first loses no order: no alternative to try *)
                   if x.kind = 'G' then None else try_each (p :: before) rest)
              | None -> try_each (p :: before) rest)
           | None -> try_each (p :: before) rest) in
      match try_each [] pending with
      | Some r -> Some r
      | None ->
        if !any_enabled then None
        else if List.for_all (fun (_, x) -> x.kind = 'Q') pending then open_group s hist pending nseq gi
        else None
    end in
  try open_group an_init [] [] 0 0 with Budget -> None

let replay_any (cfg : an_cfg) (tasks : an_opts array) (evs : ev list) : an_state * an_event list =
  try replay cfg tasks evs
  with Reject m ->
    (match replay_search cfg tasks evs with
     | Some r -> r
     | None -> raise (Reject m))

let parse_args toks =
  match toks with
  | mode :: urg :: n :: nt :: rest ->
    let nt = int_of_string nt in
    let rec take i acc l = if i = 0 then (List.rev acc, l) else match l with x :: r -> take (i - 1) (x :: acc) r | [] -> failwith "too few tasks" in
    let (tt, et) = take nt [] rest in
    let cfg = { an_N = nat_of_int (int_of_string n);
                an_pub = (if mode = "orig" then AnSharedFields else AnAttemptChannel);
                an_urg = (urg = "1") } in
    (cfg, Array.of_list (List.map parse_task tt), List.map parse_ev et)
  | _ -> failwith "bad antsrun"

(* all resolutions of the '?' flags *)
let rec resolutions (evs : ev list) : ev list list =
  match evs with
  | [] -> [[]]
  | x :: r ->
    let rs = resolutions r in
    if x.flag = '?' then
      List.concat_map (fun tl -> [{ x with flag = '0' } :: tl; { x with flag = '1' } :: tl]) rs
    else List.map (fun tl -> x :: tl) rs

let show_state (s : an_state) (nt : int) : string =
  let ts = List.init nt (fun k -> show_task s k) in
  Printf.sprintf "OK maxrun=%d now=%s %s" (int_of_nat (an_maxrun s)) (string_of_z (an_now s)) (String.concat " " ts)

(* greedy replay only (diagnosis: how often the search is needed) *)
let run_one_greedy cfg tasks evs =
  try let (s, _) = replay cfg tasks evs in show_state s (Array.length tasks)
  with Reject m -> "REJECT " ^ m

let run_one cfg tasks evs =
  try let (s, _) = replay_any cfg tasks evs in show_state s (Array.length tasks)
  with Reject m -> "REJECT " ^ m

(* Coq syntax *)
let cz z = "(" ^ string_of_z z ^ ")"
let cnat n = string_of_int n ^ "%nat"
let cbool b = if b then "true" else "false"
let cerr = function AnNil -> "AnNil" | AnE z -> "(AnE " ^ cz z ^ ")" | AnDeadline -> "AnDeadline" | AnDiscard -> "AnDiscard" | AnCanceled -> "AnCanceled"
let cval = function None -> "None" | Some z -> "(Some " ^ cz z ^ ")"
let cbeh b = Printf.sprintf "{| ab_dur := %s; ab_honours := %s; ab_val := %s; ab_err := %s |}"
    (cz b.ab_dur) (cbool b.ab_honours) (cval b.ab_val) (cerr b.ab_err)
let copts o = Printf.sprintf "{| ao_T := %s; ao_R := %s; ao_discard := %s; ao_onerr := %s; ao_behs := [%s] |}"
    (cz o.ao_T) (cnat (int_of_nat o.ao_R)) (cbool o.ao_discard) (cbool o.ao_onerr) (String.concat "; " (List.map cbeh o.ao_behs))
let cev = function
  | AnSend o -> "AnSend " ^ copts o
  | AnPick k -> "AnPick " ^ cnat (int_of_nat k)
  | AnEnqueue k -> "AnEnqueue " ^ cnat (int_of_nat k)
  | AnStart (k, a) -> Printf.sprintf "AnStart %s %s" (cnat (int_of_nat k)) (cnat (int_of_nat a))
  | AnReturn (k, a, b) -> Printf.sprintf "AnReturn %s %s %s" (cnat (int_of_nat k)) (cnat (int_of_nat a)) (cbool b)
  | AnPublish (k, a) -> Printf.sprintf "AnPublish %s %s" (cnat (int_of_nat k)) (cnat (int_of_nat a))
  | AnDecide (k, b) -> Printf.sprintf "AnDecide %s %s" (cnat (int_of_nat k)) (cbool b)
  | AnGet2 k -> "AnGet2 " ^ cnat (int_of_nat k)
  | AnAdvance d -> "AnAdvance " ^ cz d
  | AnParentCancel -> "AnParentCancel"
let ccfg c = Printf.sprintf "{| an_N := %s; an_pub := %s; an_urg := %s |}" (cnat (int_of_nat c.an_N))
    (match c.an_pub with AnSharedFields -> "AnSharedFields" | AnAttemptChannel -> "AnAttemptChannel") (cbool c.an_urg)

let () =
  Registry.register "antsrun" (fun toks ->
      let (cfg, tasks, evs) = parse_args toks in
      match resolutions evs with
      | [one] -> run_one cfg tasks one
      | many ->
        let outs = List.sort_uniq compare (List.map (run_one cfg tasks) many) in
        "SET " ^ String.concat " || " outs);
  Registry.register "antsgreedy" (fun toks ->
      let (cfg, tasks, evs) = parse_args toks in
      match resolutions evs with
      | [one] -> run_one_greedy cfg tasks one
      | many -> "SET " ^ String.concat " || " (List.sort_uniq compare (List.map (run_one_greedy cfg tasks) many)));
  Registry.register "antscoq" (fun toks ->
      let (cfg, tasks, evs) = parse_args toks in
      let evs = List.map (fun x -> if x.flag = '?' then { x with flag = '0' } else x) evs in
      try
        let (s, hist) = replay_any cfg tasks evs in
        Printf.sprintf "COQ %s @@ [%s]" (ccfg cfg) (String.concat "; " (List.rev_map cev hist))
      with Reject m -> "REJECT " ^ m)
