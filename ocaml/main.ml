(* main.ml -- line protocol: one case per line in (stdin), one canonical result per line
   out (stdout). The first token selects the handler registered by a drv_*.ml file; the
   handler receives the remaining tokens. An exception in a handler is printed as
   "MODEL-EXN ..." (always a divergence). *)
let () =
  try
    while true do
      let line = input_line stdin in
      let toks = Conv.split_ws line in
      match toks with
      | [] -> ()
      | tag :: rest ->
        (match Hashtbl.find_opt Registry.handlers tag with
         | None -> print_endline "BADCASE"
         | Some h ->
           (try print_endline (h rest)
            with e -> print_endline ("MODEL-EXN " ^ Printexc.to_string e)))
    done
  with End_of_file -> ()
