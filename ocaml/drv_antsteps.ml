(* drv_antsteps.ml -- model side of the ants dispatch-steps cases (C07 stream "dispatch-steps"):
   runs the small-step machine coq/models/AntsSteps.v on the same (pool size, programs, schedule)
   the real pool runs under the cooperative scheduler on the virtual clock
   (harness/cmd/coopft/c07s.go), renders the same per-step observation, and enumerates schedules.
   The branch a select took when both branches were ready is the runtime's choice: it is read from
   the implementation's trace and passed in as ch=<0|1 per executed step>. *)
open Model
open Conv

let kv toks =
  List.filter_map (fun t -> match String.index_opt t '=' with
    | Some i -> Some (String.sub t 0 i, String.sub t (i+1) (String.length t - i - 1))
    | None -> None) toks
let get m k = try List.assoc k m with Not_found -> ""
let split_ne c s = if s = "" then [] else String.split_on_char c s
let tl1 s = String.sub s 1 (String.length s - 1)
let ios = int_of_string
let ion = int_of_nat
let noi = nat_of_int

(* behaviour: [y][w]<val>_<err> *)
let parse_beh (b : string) : ast_beh =
  let y = String.length b > 0 && b.[0] = 'y' in
  let b1 = if y then tl1 b else b in
  let w = String.length b1 > 0 && b1.[0] = 'w' in
  let b2 = if w then tl1 b1 else b1 in
  match String.split_on_char '_' b2 with
  | [v; e] -> { asb_yield = y; asb_wait = w; asb_val = z_of_string v; asb_err = z_of_string e }
  | _ -> failwith ("bad behaviour " ^ b)

(* op: S<T>:<R>:<discard>:<onerr>:<beh>+<beh>... | G<k> | X *)
let parse_op (o : string) : ast_op =
  match o.[0] with
  | 'S' -> (match String.split_on_char ':' (tl1 o) with
      | [t; r; d; e; behs] ->
        AstSend { aso_timeout = z_of_string t; aso_retry = noi (ios r); aso_discard = (d = "1"); aso_onerr = (e = "1");
                  aso_behs = List.map parse_beh (split_ne '+' behs) }
      | _ -> failwith ("bad op " ^ o))
  | 'G' -> AstGet (noi (ios (tl1 o)))
  | 'X' -> AstClose
  | _ -> failwith ("bad op " ^ o)

let parse_progs s = List.map (fun p -> List.map parse_op (split_ne '.' p)) (String.split_on_char ';' s)
let nsends prog = List.length (List.filter (function AstSend _ -> true | _ -> false) prog)

let show_ev (ev : ast_ev) : string =
  match ev with
  | AstEvYield site -> "y" ^ string_of_z site
  | AstEvRet (AstRTask _) -> "r:t"
  | AstEvRet AstRDiscard -> "r:d"
  | AstEvRet (AstRPair (v, e)) -> "r:" ^ string_of_z v ^ ":" ^ string_of_z e
  | AstEvRet AstRExit -> "r:exit"
  | AstEvRet AstRClosed -> "r:closed"
  | AstEvRet AstRBad -> "r:bad"
  | AstEvBlocked -> "blocked"
  | AstEvDone -> "done"

let show_tasks progs (s : ast_state) : string =
  let thr = ast_thr s in
  String.concat "," (List.concat (List.mapi (fun i prog ->
      let hs = ath_handles (List.nth thr i) in
      List.init (nsends prog) (fun j ->
          match List.nth_opt hs j with
          | None -> "-"
          | Some AstHDiscard -> "D"
          | Some (AstHTask t) ->
            let x = List.nth (ast_tasks s) (ion t) in
            Printf.sprintf "%s:%s:%d:%s" (string_of_z (att_res x)) (string_of_z (att_err x)) (ion (att_started x))
              (String.concat "+" (List.map string_of_z (att_onerr x))))) progs))

let show_obs progs (s : ast_state) (ev : ast_ev) (b : bool) : string =
  Printf.sprintf "%s/%s/%d,%d/%s/%d,%d/%s" (show_ev ev) (if b then "1" else "0")
    (List.length (ast_tchan s)) (List.length (ast_ichan s)) (string_of_z (ast_now s))
    (ion (ast_running s)) (ion (ast_discards s)) (show_tasks progs s)

let nthreads s = List.length (ast_thr s)
let enabled md n s i = not (ast_is_finished s (noi i)) && not (ast_is_blocked md n s (noi i))

(* tie: the clock jumped onto a deadline that another live context shares *)
let tie_of (s0 : ast_state) (s1 : ast_state) : bool =
  if ast_now s0 = ast_now s1 then false
  else List.length (List.filter (fun a -> not (ata_cancelled a) && ata_deadline a = ast_now s1) (ast_atts s0)) >= 2

let run_case md n progs s0 sched hints =
  let hints = ref hints in
  let next_hint () = match !hints with [] -> false | h :: r -> hints := r; h in
  let tie = ref false and maxrun = ref 0 in
  let s = ref s0 in
  let do_step i =
    let h = next_hint () in
    let ((s1, ev), b) = ast_step md n !s (noi i) h in
    if tie_of !s s1 then tie := true;
    if ion (ast_running s1) > !maxrun then maxrun := ion (ast_running s1);
    s := s1;
    show_obs progs s1 ev b in
  let buf = Buffer.create 256 in
  List.iteri (fun k i -> if k > 0 then Buffer.add_char buf ';'; Buffer.add_string buf (do_step i)) sched;
  let round () =
    let b = Buffer.create 256 in
    let first = ref true and go = ref true and cnt = ref 0 in
    while !go && !cnt < 4096 do
      incr cnt;
      let progressed = ref false in
      for i = 0 to nthreads !s - 1 do
        if enabled md n !s i then begin
          if not !first then Buffer.add_char b ';';
          first := false;
          Buffer.add_string b (string_of_int i ^ ":" ^ do_step i);
          progressed := true
        end
      done;
      if not !progressed then go := false
    done;
    Buffer.contents b in
  let fin = round () in
  let cfin =
    if ast_closed !s then "" else begin
      s := { !s with ast_closed = true };
      round ()
    end in
  let stuck = List.filter (fun i -> not (ast_is_finished !s (noi i))) (List.init (nthreads !s) (fun i -> i)) in
  let end_ = if stuck = [] then "ok" else "stuck:" ^ String.concat "," (List.map string_of_int stuck) in
  (!s, Printf.sprintf "steps=%s fin=%s cfin=%s end=%s" (Buffer.contents buf) fin cfin end_, !tie, !maxrun)

let state_key (s : ast_state) = Marshal.to_string s []

let enabled_list md n s = List.filter (enabled md n s) (List.init (nthreads s) (fun i -> i))

(* the successor states of thread i (one per select outcome) *)
let succs md n s i =
  let ((s1, _), _) = ast_step md n s (noi i) false in
  let ((s2, _), _) = ast_step md n s (noi i) true in
  if s1 = s2 then [s1] else [s1; s2]

let sched_str l = String.concat "," (List.map string_of_int l)

(* all maximal interleavings (DFS over thread choices and select outcomes), at most max *)
let enum_all md n s0 max =
  let out = Hashtbl.create 1024 in
  let order = ref [] in
  let cnt = ref 0 in
  let rec go s path =
    if !cnt < max then
      match enabled_list md n s with
      | [] ->
        let k = sched_str (List.rev path) in
        if not (Hashtbl.mem out k) then begin Hashtbl.add out k (); order := k :: !order; incr cnt end
      | en -> List.iter (fun i -> List.iter (fun s1 -> go s1 (i :: path)) (succs md n s i)) en in
  go s0 [];
  List.rev !order

(* one schedule per (reachable state, thread) edge incl. blocked steps *)
let enum_edges md n s0 max =
  let seen = Hashtbl.create 1024 in
  let queue = Queue.create () in
  let out = ref [] and cnt = ref 0 in
  Hashtbl.add seen (state_key s0) ();
  Queue.add (s0, []) queue;
  while not (Queue.is_empty queue) && !cnt < max do
    let (s, path) = Queue.pop queue in
    let en = enabled_list md n s in
    List.iter (fun i ->
        if not (List.mem i en) && not (ast_is_finished s (noi i)) && !cnt < max then begin
          out := sched_str (List.rev (i :: path)) :: !out; incr cnt end) (List.init (nthreads s) (fun i -> i));
    List.iter (fun i ->
        let p1 = i :: path in
        if !cnt < max then begin out := sched_str (List.rev p1) :: !out; incr cnt end;
        List.iter (fun s1 ->
            let k = state_key s1 in
            if not (Hashtbl.mem seen k) then begin Hashtbl.add seen k (); Queue.add (s1, p1) queue end) (succs md n s i)) en
  done;
  (List.rev !out, Hashtbl.length seen)

let mode_of m = if get m "order" = "orig" then AstOrig else AstFixed

let () =
  Registry.register "c07s" (fun toks ->
      let m = kv toks in
      let n = noi (ios (get m "n")) in
      let progs = parse_progs (get m "progs") in
      let s0 = ast_init n progs in
      let sched = List.map ios (split_ne ',' (get m "sched")) in
      let hints = List.map (fun c -> c = '1') (List.of_seq (String.to_seq (get m "ch"))) in
      let (_, tr, tie, maxrun) = run_case (mode_of m) n progs s0 sched hints in
      Printf.sprintf "%s | tie=%d maxrun=%d" tr (if tie then 1 else 0) maxrun);
  (* c07senum mode=all|edges max=N n=.. progs=..  ->  states=<n> scheds=s1;s2;... *)
  Registry.register "c07senum" (fun toks ->
      let m = kv toks in
      let max = ios (get m "max") in
      let n = noi (ios (get m "n")) in
      let s0 = ast_init n (parse_progs (get m "progs")) in
      if get m "mode" = "all" then
        "states=0 scheds=" ^ String.concat ";" (enum_all (mode_of m) n s0 max)
      else
        let (l, k) = enum_edges (mode_of m) n s0 max in
        Printf.sprintf "states=%d scheds=%s" k (String.concat ";" l))
