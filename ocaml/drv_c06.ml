(* drv_c06.ml -- model side of the C06 scenario cases: explores coq/models/CacheLive.v from the
   initial state of a scenario (breadth first, every interleaving, every idle-worker choice, up
   to <ticks> ticker firings) and reports whether a deadlock (no thread enabled, work unfinished)
   is reachable.  Search code only; cl_step / cl_stuck / cl_finished are the extracted model. *)
open Model
open Conv

let kv toks =
  List.filter_map (fun t -> match String.index_opt t '=' with
    | Some i -> Some (String.sub t 0 i, String.sub t (i+1) (String.length t - i - 1))
    | None -> None) toks
let get m k = try List.assoc k m with Not_found -> ""

let client_str = function
  | ClWant (sh, j) -> Printf.sprintf "w%d%c" (int_of_nat sh) (if j then 'j' else 'n')
  | ClHold (sh, j) -> Printf.sprintf "h%d%c" (int_of_nat sh) (if j then 'j' else 'n')
  | ClSent sh -> Printf.sprintf "t%d" (int_of_nat sh)
  | ClSend -> "s"
  | ClDone -> "d"
let worker_str = function
  | ClwIdle -> "i" | ClwLoading -> "l"
  | ClwSweepWant i -> Printf.sprintf "W%d" (int_of_nat i)
  | ClwSweepHold i -> Printf.sprintf "H%d" (int_of_nat i)
let state_key s ticks =
  String.concat "," (List.map client_str (cl_clients s)) ^ "|" ^
  String.concat "," (List.map worker_str (cl_workers s)) ^ "|" ^
  string_of_int (int_of_nat (cl_queue s)) ^ (if cl_tick s then "T" else "-") ^ string_of_int ticks

let parse_clients s =
  List.map (fun t ->
      let n = String.length t in
      ClWant (nat_of_int (int_of_string (String.sub t 0 (n - 1))), t.[n - 1] = 'j'))
    (List.filter (fun x -> x <> "") (String.split_on_char ',' s))

let explore cfg s0 ticks limit =
  let seen = Hashtbl.create 65536 in
  let q = Queue.create () in
  let push s t = let k = state_key s t in
    if not (Hashtbl.mem seen k) then (Hashtbl.add seen k (); Queue.add (s, t) q) in
  push s0 ticks;
  let dead = ref None and n = ref 0 and maxm = ref 0 in
  while not (Queue.is_empty q) && !dead = None && !n < limit do
    let (s, t) = Queue.pop q in
    incr n;
    let m = int_of_nat (cl_measure cfg s) in
    if m > !maxm then maxm := m;
    if cl_stuck cfg s && not (cl_finished s) then dead := Some s
    else begin
      List.iter (fun l -> match cl_step cfg s l with
          | Some s' ->
            (* the proved measure must decrease on every thread step *)
            if int_of_nat (cl_measure cfg s') >= m then failwith "measure did not decrease";
            push s' t
          | None -> ()) (cl_thread_labels s);
      if t > 0 && not (cl_tick s) then
        (match cl_step cfg s LTick with Some s' -> push s' (t - 1) | None -> ())
    end
  done;
  (!dead, !n, Queue.is_empty q, !maxm)

let () =
  (* c06x ord=under|after par=<n> cap=<n> nsh=<n> ticks=<n> clients=<shard><j|n>,... *)
  Registry.register "c06x" (fun toks ->
    let m = kv toks in
    let cfg = { cl_ord = (if get m "ord" = "under" then SendUnderLock else SendAfterUnlock);
                cl_cap = nat_of_int (int_of_string (get m "cap"));
                cl_nshards = nat_of_int (int_of_string (get m "nsh")) } in
    let s0 = cl_init (nat_of_int (int_of_string (get m "par"))) (parse_clients (get m "clients")) in
    let (dead, n, complete, maxm) = explore cfg s0 (int_of_string (get m "ticks")) 400000 in
    match dead with
    | Some s -> Printf.sprintf "deadlock=1 states=%d at=%s" n (state_key s 0)
    | None -> Printf.sprintf "deadlock=0 states=%d complete=%d maxmeasure=%d" n (if complete then 1 else 0) maxm)
