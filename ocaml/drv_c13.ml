(* drv_c13.ml -- model side of the C13 cases (iox.Buffer / iox.OctetsStream op sequences).
   Case line:  c13S <op> <op> ...   (OctetsStream, fixed Seek)
               c13So <op> ...       (OctetsStream, ORIGINAL Seek: canary variant)
   op tokens:  w<n>   write the next n bytes of the pattern stream (byte i = pat i)
               x<hex> write explicit bytes
               r<n>   Read into a buffer of length n
               n<n>   Next(n)            (Buffer only)
               s<whence>:<offset>  Seek
               t      Tidy      z  Reset      g<n>  Grow(n) (Buffer only) *)
open Model
open Conv

let pat (i : int) : int = (i + (i lsr 8) * 3 + 1) land 0xff

let hex_of_zlist (l : z list) : string =
  let b = Buffer.create 64 in
  List.iter (fun v -> Buffer.add_string b (Printf.sprintf "%02x" (int_of_z v))) l;
  Buffer.contents b

let zlist_of_hex (s : string) : z list =
  let n = String.length s / 2 in
  List.init n (fun i -> z_of_int (int_of_string ("0x" ^ String.sub s (2 * i) 2)))

let tail (s : string) : string = String.sub s 1 (String.length s - 1)

exception Bad_op of string

(* generic token parser: returns a tagged op *)
type tok =
  | TWrite of z list | TRead of int | TNext of string | TSeek of string * string
  | TTidy | TReset | TGrow of string

(* q<n>/<tok> = Buffer.ReadOnce of n bytes whose reader first performs <tok> on the same buffer:
   in the model the inner op, then the Write of the delivered bytes *)
let expand_q (t : string) : string list =
  if t <> "" && t.[0] = 'q' then
    match String.index_opt t '/' with
    | Some k -> [String.sub t (k + 1) (String.length t - k - 1); "w" ^ String.sub t 1 (k - 1)]
    | None -> [t]
  else [t]

let parse_toks (toks : string list) : tok list =
  let toks = List.concat_map expand_q toks in
  let written = ref 0 in
  List.map (fun t ->
    if t = "" then raise (Bad_op t) else
    match t.[0] with
    | 'w' | 'o' -> let n = int_of_string (tail t) in
      let l = List.init n (fun i -> z_of_int (pat (!written + i))) in
      written := !written + n; TWrite l
    | 'x' -> let l = zlist_of_hex (tail t) in written := !written + List.length l; TWrite l
    | 'r' -> TRead (int_of_string (tail t))
    | 'n' -> TNext (tail t)
    | 's' -> (match String.split_on_char ':' (tail t) with
        | [w; o] -> TSeek (w, o)
        | _ -> raise (Bad_op t))
    | 't' -> TTidy
    | 'z' -> TReset
    | 'g' -> TGrow (tail t)
    | _ -> raise (Bad_op t)) toks

let opt_pos (r : z option) : string = match r with Some p -> "S" ^ string_of_z p | None -> "SE"

(* ---------------- OctetsStream ---------------- *)
let stm_ops (toks : string list) : stm_op list =
  List.map (function
    | TWrite l -> SWrite l
    | TRead n -> SRead (nat_of_int n)
    | TSeek (w, o) -> SSeek (z_of_string o, z_of_string w)
    | TTidy -> STidy
    | TReset -> SReset
    | TNext _ | TGrow _ -> raise (Bad_op "op not available on OctetsStream")) (parse_toks toks)

let show_stm_ret (r : stm_ret) : string =
  match r with
  | SRWrote -> "W"
  | SRRead (d, e) -> Printf.sprintf "R%d:%s%s" (List.length d) (hex_of_zlist d) (if e then ":E" else "")
  | SRSeek p -> opt_pos p
  | SRUnit -> "U"

let show_stm_line (l : stm_line) : string =
  match l with
  | SLPanic -> "PANIC"
  | SLObs (r, b, len, pos) ->
    Printf.sprintf "%s b=%s l=%s p=%s" (show_stm_ret r)
      (match b with Ok d -> hex_of_zlist d | _ -> "PANIC") (string_of_z len) (string_of_z pos)

let run_stm (v : stm_variant) (toks : string list) : string =
  match (try Some (stm_ops toks) with Bad_op _ | Failure _ | Invalid_argument _ -> None) with
  | None -> "BADCASE"
  | Some ops -> String.concat " ; " (List.map show_stm_line (stm_trace v stm_init ops))

(* ---------------- Buffer ---------------- *)
let buf_ops (toks : string list) : buf_op list =
  List.map (function
    | TWrite l -> BWrite l
    | TRead n -> BRead (nat_of_int n)
    | TNext n -> BNext (z_of_string n)
    | TSeek (w, o) -> BSeek (z_of_string o, z_of_string w)
    | TTidy -> BTidy
    | TReset -> BReset
    | TGrow n -> BGrow (z_of_string n)) (parse_toks toks)

let show_buf_ret (r : buf_ret) : string =
  match r with
  | BRWrote n -> "W" ^ string_of_z n
  | BRRead (d, e) -> Printf.sprintf "R%d:%s%s" (List.length d) (hex_of_zlist d) (if e then ":EOF" else "")
  | BRNext d -> "N" ^ hex_of_zlist d
  | BRSeek p -> opt_pos p
  | BRUnit -> "U"

let show_buf_line (l : buf_line) : string =
  match l with
  | BLPanic -> "PANIC"
  | BLObs (r, b, len, cap, pos) ->
    Printf.sprintf "%s b=%s l=%s c=%s p=%s" (show_buf_ret r)
      (match b with Ok d -> hex_of_zlist d | _ -> "PANIC") (string_of_z len) (string_of_z cap)
      (match pos with Some p -> string_of_z p | None -> "E")

let run_buf (toks : string list) : string =
  match (try Some (buf_ops toks) with Bad_op _ | Failure _ | Invalid_argument _ -> None) with
  | None -> "BADCASE"
  | Some ops -> String.concat " ; " (List.map show_buf_line (buf_trace buf_init ops))

let () =
  Registry.register "c13B" run_buf;
  Registry.register "c13S" (run_stm StmFixed);
  Registry.register "c13So" (run_stm StmOrig)
