(* conv.ml -- parsing/printing glue between text lines and the extracted Coq datatypes.
   Hand-written, trusted (listed in the trusted base): conversions only. *)
open Model

let rec pos_of_int64u (v : int64) : positive =
  (* v interpreted as unsigned, v <> 0 *)
  if Int64.equal v 1L then XH
  else
    let rest = Int64.shift_right_logical v 1 in
    if Int64.equal (Int64.logand v 1L) 1L then XI (pos_of_int64u rest)
    else XO (pos_of_int64u rest)

let z_of_int64 (v : int64) : z =
  if Int64.equal v 0L then Z0
  else if Int64.compare v 0L > 0 then Zpos (pos_of_int64u v)
  else Zneg (pos_of_int64u (Int64.neg v)) (* min_int: neg = min_int = 2^63 unsigned *)

(* unsigned 64-bit decimal string -> Z (for values up to 2^64-1) *)
let z_of_uint64_string (s : string) : z =
  let v = Int64.of_string ("0u" ^ s) in
  if Int64.equal v 0L then Z0 else Zpos (pos_of_int64u v)

let z_of_string (s : string) : z =
  if String.length s > 0 && s.[0] = 'u' then
    z_of_uint64_string (String.sub s 1 (String.length s - 1))
  else z_of_int64 (Int64.of_string s)

let z_of_int (n : int) : z = z_of_int64 (Int64.of_int n)

(* positive -> (hi, lo) big representation as a decimal string; general, by repeated
   doubling on a decimal digit array *)
let dec_double_add (digits : int array) (len : int ref) (bit : int) : unit =
  let carry = ref bit in
  for i = 0 to !len - 1 do
    let d = digits.(i) * 2 + !carry in
    digits.(i) <- d mod 10;
    carry := d / 10
  done;
  if !carry > 0 then begin
    digits.(!len) <- !carry;
    incr len
  end

let string_of_pos (p : positive) : string =
  (* collect bits msb-first *)
  let rec bits p acc = match p with
    | XH -> 1 :: acc
    | XO q -> bits q (0 :: acc)
    | XI q -> bits q (1 :: acc) in
  let bl = bits p [] in
  let n = List.length bl in
  if n <= 62 then
    string_of_int (List.fold_left (fun a b -> a * 2 + b) 0 bl)
  else begin
    let digits = Array.make (n / 3 + 4) 0 in
    let len = ref 1 in
    List.iter (fun b -> dec_double_add digits len b) bl;
    let buf = Buffer.create !len in
    for i = !len - 1 downto 0 do
      Buffer.add_char buf (Char.chr (48 + digits.(i)))
    done;
    Buffer.contents buf
  end

let string_of_z (v : z) : string =
  match v with
  | Z0 -> "0"
  | Zpos p -> string_of_pos p
  | Zneg p -> "-" ^ string_of_pos p

let rec nat_of_int (n : int) : nat = if n <= 0 then O else S (nat_of_int (n - 1))
let rec int_of_nat (n : nat) : int = match n with O -> 0 | S m -> 1 + int_of_nat m

let n_of_int (v : int) : n = if v = 0 then N0 else Npos (pos_of_int64u (Int64.of_int v))
let string_of_n (v : n) : string = match v with N0 -> "0" | Npos p -> string_of_pos p
let int_of_z (v : z) : int = int_of_string (string_of_z v)

let zlist_to_string (l : z list) : string =
  "[" ^ String.concat "," (List.map string_of_z l) ^ "]"

let split_ws (s : string) : string list =
  List.filter (fun x -> x <> "") (String.split_on_char ' ' (String.trim s))
