(* drv_c11.ml -- model side of the C11 / C12 cases (iox octets codec): text <-> oct_val,
   oct_op; the handlers only call oct_c11_case / oct_c12_case of the extracted model. *)
open Model
open Conv

let hexdigit c = match c with
  | '0'..'9' -> Char.code c - 48
  | 'a'..'f' -> Char.code c - 87
  | 'A'..'F' -> Char.code c - 55
  | _ -> failwith "bad hex"

let zlist_of_hex (s : string) : z list =
  let n = String.length s / 2 in
  let rec go i acc = if i < 0 then acc
    else go (i - 1) (z_of_int (hexdigit s.[2*i] * 16 + hexdigit s.[2*i+1]) :: acc) in
  if s = "-" then [] else go (n - 1) []

let rec small_of_pos (p : positive) : int = match p with
  | XH -> 1 | XO q -> 2 * small_of_pos q | XI q -> 2 * small_of_pos q + 1
(* for numbers known to fit an OCaml int (bytes, lengths) *)
let small_of_z (v : z) : int = match v with Z0 -> 0 | Zpos p -> small_of_pos p | Zneg p -> - (small_of_pos p)

let hex_of_zlist (l : z list) : string =
  let b = Buffer.create 64 in
  List.iter (fun x ->
      let v = small_of_z x in
      if v < 0 || v > 255 then Buffer.add_string b (Printf.sprintf "<%d>" v)
      else Buffer.add_string b (Printf.sprintf "%02x" v)) l;
  Buffer.contents b

let api_of_char c = match c with 's' -> OctViaStream | 'w' | 'r' -> OctViaReader | _ -> failwith "bad api"

(* "<api><type>:<value>" *)
let val_of_tok (t : string) : oct_api * oct_val =
  let a = api_of_char t.[0] in
  let v = String.sub t 3 (String.length t - 3) in
  if t.[2] <> ':' then failwith "bad token";
  a, (match t.[1] with
      | 'b' -> OVBool (v = "1")
      | 'y' -> OVByte (z_of_string v)
      | 'h' -> OVInt16 (z_of_string v)
      | 'i' -> OVInt32 (z_of_string v)
      | 'l' -> OVInt64 (z_of_string v)
      | 'v' -> OV7Bit (z_of_string v)
      | 'B' -> OVBytes (zlist_of_hex v)
      | 'S' -> OVString (zlist_of_hex v)
      | _ -> failwith "bad type")

let show_val (x : oct_val) : string = match x with
  | OVBool b -> if b then "b:1" else "b:0"
  | OVByte x -> "y:" ^ string_of_z x
  | OVInt16 x -> "h:" ^ string_of_z x
  | OVInt32 x -> "i:" ^ string_of_z x
  | OVInt64 x -> "l:" ^ string_of_z x
  | OV7Bit x -> "v:" ^ string_of_z x
  | OVBytes l -> "B:" ^ hex_of_zlist l
  | OVString l -> "S:" ^ hex_of_zlist l
  | OVRaw l -> "r:" ^ hex_of_zlist l

let show_err (e : oct_err) : string = match e with
  | OctErrInvalidArgument -> "E:InvalidArgument"
  | OctErrBad7BitInt -> "E:Bad7BitInt"
  | OctErrNegativeSize -> "E:NegativeSize"
  | OctErrNotEnoughData -> "E:NotEnoughData"

let show_res (r : (oct_val, oct_err) res) : string = match r with
  | Ok x -> show_val x
  | Err e -> show_err e
  | Panic -> "PANIC"

(* value@pos/len+alloc *)
let show_rd (((r, s), a) : oct_val oct_rd) : string =
  Printf.sprintf "%s@%d/%d+%s" (show_res r) (int_of_nat (oct_pos s)) (List.length (oct_buf s)) (string_of_z a)

let op_of_tok (t : string) : oct_op =
  match t with
  | "sb" -> OpBool OctViaStream | "rb" -> OpBool OctViaReader
  | "sy" -> OpByte OctViaStream | "ry" -> OpByte OctViaReader
  | "sh" -> OpInt16 OctViaStream | "rh" -> OpInt16 OctViaReader
  | "si" -> OpInt32 OctViaStream | "ri" -> OpInt32 OctViaReader
  | "sl" -> OpInt64 OctViaStream | "rl" -> OpInt64 OctViaReader
  | "v" -> Op7Bit | "B" -> OpBytes | "S" -> OpString
  | _ when String.length t >= 2 && t.[0] = 'n' -> OpRead (z_of_string (String.sub t 1 (String.length t - 1)))
  | _ -> failwith "bad op"

let () =
  (* c11 <api><type>:<value> ...  ->  W=<hex> L=<len,...> R=<res@pos/len+alloc;...> *)
  (* c11R: the same case on a stream reused after Reset(): in the model a stream after Reset is the empty stream *)
  Registry.register "c11R" (fun toks -> (Hashtbl.find Registry.handlers "c11") toks);
  Registry.register "c11" (fun toks ->
      match oct_c11_case (List.map val_of_tok toks) with
      | None -> "NOFUEL"
      | Some ((ls, s), rs) ->
        Printf.sprintf "W=%s L=%s R=%s" (match oct_buf s with [] -> "-" | l -> hex_of_zlist l)
          (String.concat "," (List.map string_of_z ls))
          (String.concat ";" (List.map show_rd rs)));
  (* c11i <schedule over W R T> <api><type>:<value> ...  (interleaved: W = next write, R = next
     matching read, T = Tidy)  ->  S=<step;...> P=<pos>/<len> U=<unread bytes, hex>
     step: w<pos>/<len> | R<pos before>~<res@pos/len+alloc> | t<pos>/<len> *)
  Registry.register "c11i" (fun toks ->
      match toks with
      | [] -> "BADCASE"
      | sched :: vals ->
        let sch = List.init (String.length sched) (fun i -> match sched.[i] with
            | 'W' -> OctSW | 'R' -> OctSR | 'T' -> OctST | _ -> failwith "bad schedule") in
        let pl s = Printf.sprintf "%d/%d" (int_of_nat (oct_pos s)) (List.length (oct_buf s)) in
        match oct_c11i_case sch (List.map val_of_tok vals) with
        | None -> "NONE"
        | Some (obs, s) ->
          let show o = match o with
            | OctObW s1 -> "w" ^ pl s1
            | OctObR (p0, rd) -> Printf.sprintf "R%d~%s" (int_of_nat p0) (show_rd rd)
            | OctObT s1 -> "t" ^ pl s1 in
          let rec drop n l = if n <= 0 then l else match l with [] -> [] | _ :: r -> drop (n - 1) r in
          Printf.sprintf "S=%s P=%s U=%s" (String.concat ";" (List.map show obs)) (pl s)
            (match drop (int_of_nat (oct_pos s)) (oct_buf s) with [] -> "-" | l -> hex_of_zlist l));
  (* c12 <hex|-> <op> ...  ->  R=<res@pos/len+alloc;...>   (c12o: the pre-fix ReadBytes) *)
  let c12 v = fun toks -> match toks with
    | input :: ops ->
      "R=" ^ String.concat ";" (List.map show_rd (oct_c12_case v (zlist_of_hex input) (List.map op_of_tok ops)))
    | _ -> "BADCASE" in
  Registry.register "c12" (c12 OctFixed);
  Registry.register "c12o" (c12 OctOrig)
