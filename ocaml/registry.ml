(* registry.ml -- tag -> handler table of the model driver. Each drv_<x>.ml registers its
   case handlers at load time; main.ml runs the line protocol. *)
let handlers : (string, string list -> string) Hashtbl.t = Hashtbl.create 64
let register (tag : string) (h : string list -> string) : unit = Hashtbl.replace handlers tag h
