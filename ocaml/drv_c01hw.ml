(* drv_c01hw.ml -- runs the extracted, proved-sound checker of textbook linearizability
   (coq/models/QueueHwCheck.v, q_hw_check) on an invocation/response history:
     c01hw pre=1,2 hist=i0:P5,i1:O,r1:pop=5,r0:push     ->  lin=1 | lin=0
   i<t>:<op> = thread t invokes (P<v> = Push v, O = Pop), r<t>:<res> = thread t's call returns. *)
open Model
open Conv

let kv toks =
  List.filter_map (fun t -> match String.index_opt t '=' with
    | Some i -> Some (String.sub t 0 i, String.sub t (i+1) (String.length t - i - 1))
    | None -> None) toks
let get m k = try List.assoc k m with Not_found -> ""
let split_ne c s = if s = "" then [] else String.split_on_char c s

let parse_ev (s : string) : (q_op, q_res) hw_event =
  let i = String.index s ':' in
  let t = nat_of_int (int_of_string (String.sub s 1 (i - 1))) in
  let body = String.sub s (i + 1) (String.length s - i - 1) in
  if s.[0] = 'i' then
    HInv (t, if body = "O" then QPop else QPush (z_of_string (String.sub body 1 (String.length body - 1))))
  else if body = "push" then HRes (t, QRPush)
  else if body = "pop=nil" then HRes (t, QRPop None)
  else HRes (t, QRPop (Some (z_of_string (String.sub body 4 (String.length body - 4)))))

let () =
  Registry.register "c01hw" (fun toks ->
      let m = kv toks in
      let pre = List.map z_of_string (split_ne ',' (get m "pre")) in
      let h = List.map parse_ev (split_ne ',' (get m "hist")) in
      if q_hw_check pre h then "lin=1" else "lin=0")
