(* drv_c20.ml -- model side of the C20 cases (randx.WeightedSampling).
   c20  <seed> <k> <n> W <weights...> R <ranks...>   fixed code   (SmpEmpty)
   c20o <seed> <k> <n> W <weights...> R <ranks...>   code before 5cca028 (SmpPrefilled; canary)
   seed and weights are not used by the model: its input is the key ranks. *)
open Model
open Conv

let rec after_r (toks : string list) : string list =
  match toks with
  | [] -> failwith "no R marker"
  | "R" :: rest -> rest
  | _ :: rest -> after_r rest

let run_c20 (init : smp_init) (toks : string list) : string =
  match toks with
  | _seed :: k :: n :: rest ->
    let ranks = List.map z_of_string (after_r rest) in
    (match smp_sample_list init (z_of_string k) (z_of_string n) ranks with
     | HpOk r -> "r=" ^ zlist_to_string r
     | HpPanic -> "PANIC"
     | HpNoFuel -> "NOFUEL")
  | _ -> "BADCASE"

let () =
  Registry.register "c20" (run_c20 SmpEmpty);
  Registry.register "c20o" (run_c20 SmpPrefilled)
