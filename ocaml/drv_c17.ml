(* drv_c17.ml -- model side of the C17 cases: runs coq/models/Atomics.v on the same (initial
   word, programs, schedule) the real loom.Flag / loom.AddIf64 run under the cooperative
   scheduler, MutexWord.v's TryLock steps / Count on harness-constructed words, and
   enumerates schedules (generator only, nothing is trusted from it). *)
open Model
open Conv

let kv toks =
  List.filter_map (fun t -> match String.index_opt t '=' with
    | Some i -> Some (String.sub t 0 i, String.sub t (i+1) (String.length t - i - 1))
    | None -> None) toks
let get m k = try List.assoc k m with Not_found -> ""
let split_ne c s = if s = "" then [] else String.split_on_char c s
let int_list s = List.map int_of_string (split_ne ',' s)
let tl s = String.sub s 1 (String.length s - 1)

let parse_op (o : string) : at_op =
  match o.[0] with
  | 'A' -> AtAdd (z_of_string (tl o))
  | 'R' -> AtRemove (z_of_string (tl o))
  | 'H' -> AtHas (z_of_string (tl o))
  | 'I' -> (match String.split_on_char ':' (tl o) with
      | [k; d; l] -> let d = z_of_string d in
        AtAddIf (d, at_pred (nat_of_int (int_of_string k)) d (z_of_string l))
      | _ -> failwith "bad I op")
  | _ -> failwith ("bad op " ^ o)

let parse_progs (s : string) : at_op list list =
  List.map (fun p -> List.map parse_op (split_ne '.' p)) (String.split_on_char ';' s)

let init_of m = at_init (z_of_string (get m "init")) (parse_progs (get m "progs"))

let show_ev s i ev = match ev with
  | AEFlagEff (true, _) -> "r:add"
  | AEFlagEff (false, _) -> "r:rem"
  | AEHas (_, b) -> "r:has=" ^ string_of_bool b
  | AEIfAdd (_, _) -> "r:if=true"
  | AEIfFalse _ -> "r:if=false"
  | AENone -> "done"
  | AEInv _ | AELoad | AECasFail -> "y" ^ string_of_int (int_of_nat (at_site s i))

let nthreads s = List.length (at_threads s)

let run_steps s sched vals =
  let buf = Buffer.create 64 in
  let s = ref s in
  List.iteri (fun k i ->
      let (s1, ev) = at_step !s (nat_of_int i) in
      if k > 0 then Buffer.add_char buf ',';
      Buffer.add_string buf (show_ev s1 (nat_of_int i) ev);
      vals := string_of_z (at_word s1) :: !vals;
      s := s1) sched;
  (!s, Buffer.contents buf)

let finish s vals =
  let buf = Buffer.create 64 in
  let s = ref s and first = ref true and go = ref true and n = ref 0 in
  while !go && !n < 4096 do
    incr n;
    let progressed = ref false in
    for i = 0 to nthreads !s - 1 do
      if at_enabled !s (nat_of_int i) then begin
        let (s1, ev) = at_step !s (nat_of_int i) in
        if not !first then Buffer.add_char buf ',';
        first := false;
        Buffer.add_string buf (string_of_int i ^ ":" ^ show_ev s1 (nat_of_int i) ev);
        vals := string_of_z (at_word s1) :: !vals;
        s := s1; progressed := true
      end
    done;
    if not !progressed then go := false
  done;
  (!s, Buffer.contents buf, !go)

(* state key: closures cannot be marshalled; the program is fixed during an enumeration, so
   the operation a thread is in is identified by the length of its remaining program *)
let key_of_state s =
  let b = Buffer.create 64 in
  Buffer.add_string b (string_of_z (at_word s));
  List.iter (fun th ->
      Buffer.add_char b '|';
      (match at_pcof th with
       | AIdle -> Buffer.add_char b 'i'
       | AFlagLoad (_, _) -> Buffer.add_char b 'l'
       | AFlagCas (_, _, last) -> Buffer.add_string b ("c" ^ string_of_z last)
       | AIfLoad (_, _) -> Buffer.add_char b 'L'
       | AIfCas (_, _, e) -> Buffer.add_string b ("C" ^ string_of_z e));
      Buffer.add_string b (string_of_int (List.length (at_todo th)))) (at_threads s);
  Buffer.contents b

let enabled_list s =
  List.filter (fun i -> at_enabled s (nat_of_int i)) (List.init (nthreads s) (fun i -> i))

let sched_str l = String.concat "," (List.map string_of_int l)

(* all maximal interleavings (DFS), at most max of them; depth-bounded (a CAS retry loop
   cannot go on for ever: each failed CAS is caused by a successful one of another thread) *)
let enum_all s0 max =
  let out = ref [] and cnt = ref 0 in
  let rec go s path =
    if !cnt < max then
      match enabled_list s with
      | [] -> out := List.rev path :: !out; incr cnt
      | en -> List.iter (fun i -> let (s1, _) = at_step s (nat_of_int i) in go s1 (i :: path)) en in
  go s0 [];
  List.rev !out

(* one schedule per (reachable state, enabled thread) edge: BFS over distinct model states *)
let enum_edges s0 max =
  let seen = Hashtbl.create 1024 in
  let queue = Queue.create () in
  let out = ref [] and cnt = ref 0 in
  Hashtbl.add seen (key_of_state s0) ();
  Queue.add (s0, []) queue;
  while not (Queue.is_empty queue) && !cnt < max do
    let (s, path) = Queue.pop queue in
    List.iter (fun i ->
        let (s1, _) = at_step s (nat_of_int i) in
        let p1 = i :: path in
        if !cnt < max then begin out := List.rev p1 :: !out; incr cnt end;
        let k = key_of_state s1 in
        if not (Hashtbl.mem seen k) then begin Hashtbl.add seen k (); Queue.add (s1, p1) queue end)
      (enabled_list s)
  done;
  (List.rev !out, Hashtbl.length seen)

let show_tlres = function
  | TLCont pc -> "y" ^ string_of_int (int_of_nat (mx_tl_site pc))
  | TLRet b -> "r:" ^ string_of_bool b

let () =
  Registry.register "c17a" (fun toks ->
      let m = kv toks in
      let s0 = init_of m in
      let vals = ref [string_of_z (at_word s0)] in
      let (s1, tr) = run_steps s0 (int_list (get m "sched")) vals in
      let (_, fin, ok) = finish s1 vals in
      "steps=" ^ tr ^ " fin=" ^ fin ^ " vals=" ^ String.concat "," (List.rev !vals)
      ^ (if ok then " LIVELOCK" else ""));
  (* c17enum mode=all|edges max=N init=.. progs=..  ->  states=<n> scheds=s1;s2;... *)
  Registry.register "c17enum" (fun toks ->
      let m = kv toks in
      let max = int_of_string (get m "max") in
      let s0 = init_of m in
      if get m "mode" = "all" then
        let l = enum_all s0 max in
        "states=0 scheds=" ^ String.concat ";" (List.map sched_str l)
      else
        let (l, n) = enum_edges s0 max in
        Printf.sprintf "states=%d scheds=%s" n (String.concat ";" (List.map sched_str l)));
  Registry.register "c17t" (fun toks ->
      let m = kv toks in
      let ws = List.map z_of_string (split_ne ',' (get m "w")) in
      (* invocation step: parked before the first CAS *)
      let evs = ref ["y" ^ string_of_int (int_of_nat (mx_tl_site TLCas1))] and after = ref [] in
      let rec go pc ws = match ws with
        | [] -> ()
        | w :: rest ->
          let (w', r) = mx_trylock_step w pc in
          evs := show_tlres r :: !evs; after := string_of_z w' :: !after;
          (match r with TLCont pc' -> go pc' rest | TLRet _ -> ()) in
      go TLCas1 ws;
      "ev=" ^ String.concat "," (List.rev !evs) ^ " after=" ^ String.concat "," (List.rev !after));
  Registry.register "c17c" (fun toks ->
      let m = kv toks in
      let var = if get m "var" = "orig" then MxOrig else MxFixed in
      "count=" ^ string_of_z (mx_count var (z_of_string (get m "w"))));
  Registry.register "c17n" (fun _ -> "nil=false called=false");
  Registry.register "c17s" (fun _ -> "monitor-only")
