(* drv_c16.ml -- model side of the WaitClose cases (C16): runs coq/models/WaitClose.v on the
   same (programs, schedule) the real loom.WaitClose runs under the mutex-aware cooperative
   scheduler, renders the same per-step observation, and enumerates schedules (generator
   only; nothing is trusted from it). *)
open Model
open Conv

let kv toks =
  List.filter_map (fun t -> match String.index_opt t '=' with
    | Some i -> Some (String.sub t 0 i, String.sub t (i+1) (String.length t - i - 1))
    | None -> None) toks
let get m k = try List.assoc k m with Not_found -> ""
let split_ne c s = if s = "" then [] else String.split_on_char c s

let parse_op (o : string) : wc_op =
  match o with
  | "C" -> OpC
  | "I" -> OpIsClosed
  | "W" -> OpWait
  | "K0" -> OpClose CbNone
  | "Kn" -> OpClose (Cb (ONil, false))
  | "Ke" -> OpClose (Cb (OErr, false))
  | "Kp" -> OpClose (Cb (OPanic, false))
  | "KN" -> OpClose (Cb (ONil, true))
  | "KE" -> OpClose (Cb (OErr, true))
  | "KP" -> OpClose (Cb (OPanic, true))
  | _ -> failwith ("bad op " ^ o)

let parse_progs (s : string) : wc_op list list =
  List.map (fun p -> List.map parse_op (split_ne '.' p)) (String.split_on_char ';' s)

let parse_item (t : string) : wc_item =
  if String.length t > 0 && t.[0] = 't' then ITimeout (nat_of_int (int_of_string (String.sub t 1 (String.length t - 1))))
  else IRun (nat_of_int (int_of_string t))

(* schedule item of a case line: f<tid> = forced step of a thread parked before a held mutex (the harness
   resumes the real goroutine, which must park inside Lock(); in the model the step is the disabled no-op) *)
let parse_fitem (t : string) : bool * wc_item =
  if String.length t > 0 && t.[0] = 'f' then (true, IRun (nat_of_int (int_of_string (String.sub t 1 (String.length t - 1)))))
  else (false, parse_item t)

let parse_sched s = List.map parse_fitem (split_ne ',' s)

let fault_of m = match get m "fault" with
  | "storeearly" -> Some FStoreEarly
  | "norecheck" -> Some FNoRecheck
  | _ -> None

let step_with fault s it = match fault with
  | None -> wc_step s it
  | Some f -> wc_step_f f s it

let site_name n = match n with 1 -> "yL" | 2 -> "yB" | 3 -> "yA" | 4 -> "yU" | 5 -> "yM" | 6 -> "yW" | _ -> "y?"

(* observation of one step; chans = channels returned by C so far (first appearance order) *)
let show_step (chans : wc_chan list ref) s1 tid (acts : wc_act list) : string =
  let cls ch =
    if ch = WNil then "cnil" else begin
      let rec find i = function [] -> None | x :: r -> if x = ch then Some i else find (i+1) r in
      match find 0 !chans with
      | Some i -> "c" ^ string_of_int i
      | None -> chans := !chans @ [ch]; "c" ^ string_of_int (List.length !chans - 1)
    end in
  let ev =
    match acts with
    | [] -> "done"
    | [ABlocked] -> "blocked"
    | _ ->
      let rec ret = function
        | [] -> None
        | ARetClose RNil :: _ -> Some "r:nil"
        | ARetClose RErr :: _ -> Some "r:err"
        | ARetC ch :: _ -> Some ("r:" ^ cls ch)
        | ARetIsClosed b :: _ -> Some ("r:" ^ string_of_bool b)
        | ARetWait b :: _ -> Some ("r:" ^ string_of_bool b)
        | _ :: r -> ret r in
      (match ret acts with Some r -> r | None -> site_name (int_of_nat (wc_site s1 tid))) in
  let marks = String.concat "" (List.map (function ACbStart -> "s" | ACbEnd _ -> "e" | APanicClose -> "!" | _ -> "") acts) in
  let bits = String.concat "" (List.map (fun ch -> if wc_closedb (wc_sh s1) ch then "1" else "0") !chans) in
  ev ^ "/" ^ marks ^ "/" ^ bits

let nthreads s = List.length (wc_threads s)

let pc_of s tid = wc_pcof (List.nth (wc_threads s) tid)

(* one harness step = wc_lwstep of the model (models/WaitClose.v, "the steps of the harness"; wc_lwrun_is_run: a run
   of such steps is a run of the model). inlock = the thread that is really inside Lock() on the implementation
   side; its automatic acquisition is rendered as "+<tid>:<obs>". The faulty variants (canaries) and timer items
   are plain steps. *)
let step_item fault inlock chans s (forced, it) =
  match fault, it with
  | None, IRun i ->
    let (((s1, inl1), acts), auto) = wc_lwstep s !inlock forced i in
    inlock := inl1;
    let o = show_step chans s1 i acts in
    (match auto with
     | Some (j, acts2) -> (s1, o ^ "+" ^ string_of_int (int_of_nat j) ^ ":" ^ show_step chans s1 j acts2)
     | None -> (s1, o))
  | _ ->
    let (s1, acts) = step_with fault s it in
    (s1, show_step chans s1 (wc_item_tid it) acts)

let run_steps fault inlock chans s sched =
  let buf = Buffer.create 64 in
  let s = ref s in
  List.iteri (fun k fit ->
      let (s1, o) = step_item fault inlock chans !s fit in
      if k > 0 then Buffer.add_char buf ',';
      Buffer.add_string buf o;
      s := s1) sched;
  (!s, Buffer.contents buf)

(* round-robin completion, as the harness *)
let finish fault inlock chans s =
  let buf = Buffer.create 64 in
  let s = ref s and first = ref true and go = ref true and n = ref 0 in
  while !go && !n < 4096 do
    incr n;
    let progressed = ref false in
    for i = 0 to nthreads !s - 1 do
      let it = IRun (nat_of_int i) in
      if wc_enabled !s it then begin
        let (s1, o) = step_item fault inlock chans !s (false, it) in
        if not !first then Buffer.add_char buf ',';
        first := false;
        Buffer.add_string buf (string_of_int i ^ ":" ^ o);
        s := s1; progressed := true
      end
    done;
    if not !progressed then go := false
  done;
  (!s, Buffer.contents buf)

let all_finished s =
  List.for_all (fun th -> wc_pcof th = WIdle && wc_todo th = []) (wc_threads s)

(* threads inside WaitUtil's select; None if some other thread is unfinished (deadlock) *)
let waiting_threads s =
  let l = List.mapi (fun i th -> (i, th)) (wc_threads s) in
  if List.for_all (fun (_, th) -> (wc_pcof th = WIdle && wc_todo th = []) || (match wc_pcof th with WWait _ -> true | _ -> false)) l
  then Some (List.filter_map (fun (i, th) -> match wc_pcof th with WWait _ -> Some i | _ -> None) l)
  else None

(* the harness releases the waiting calls by a Close(nil) of its own: an extra thread running Close(nil) to its end *)
let release s =
  let n = nthreads s in
  let s = ref { wc_sh = wc_sh s; wc_threads = wc_threads s @ [ { wc_pcof = WIdle; wc_todo = [OpClose CbNone] } ] } in
  let k = ref 0 in
  while wc_enabled !s (IRun (nat_of_int n)) && !k < 64 do
    incr k; s := fst (wc_step !s (IRun (nat_of_int n)))
  done;
  !s

let key_of_state s = Marshal.to_string (wc_sh s, List.map (fun th -> (wc_pcof th, wc_todo th)) (wc_threads s)) []

let enabled_list s =
  List.filter (fun i -> wc_enabled s (IRun (nat_of_int i))) (List.init (nthreads s) (fun i -> i))

let sched_str l = String.concat "," (List.map string_of_int l)

(* all maximal interleavings (DFS), at most max of them *)
let enum_all s0 max =
  let out = ref [] and cnt = ref 0 in
  let rec go s path =
    if !cnt < max then
      match enabled_list s with
      | [] -> out := List.rev path :: !out; incr cnt
      | en -> List.iter (fun i -> let (s1, _) = wc_hstep s (IRun (nat_of_int i)) in go s1 (i :: path)) en in
  go s0 [];
  List.rev !out

(* one schedule per (reachable state, enabled thread) edge: BFS over distinct model states;
   additionally one schedule per (reachable state, blocked thread) pair, so that the disabled
   step itself is exercised on the implementation *)
let enum_edges s0 max =
  let seen = Hashtbl.create 1024 in
  let queue = Queue.create () in
  let out = ref [] and cnt = ref 0 in
  Hashtbl.add seen (key_of_state s0) ();
  Queue.add (s0, []) queue;
  while not (Queue.is_empty queue) && !cnt < max do
    let (s, path) = Queue.pop queue in
    let en = enabled_list s in
    List.iter (fun i ->
        if not (List.mem i en) then begin
          let th = List.nth (wc_threads s) i in
          if not (wc_pcof th = WIdle && wc_todo th = []) && !cnt < max then begin
            out := List.rev (i :: path) :: !out; incr cnt end
        end) (List.init (nthreads s) (fun i -> i));
    List.iter (fun i ->
        let (s1, _) = wc_hstep s (IRun (nat_of_int i)) in
        let p1 = i :: path in
        if !cnt < max then begin out := List.rev p1 :: !out; incr cnt end;
        let k = key_of_state s1 in
        if not (Hashtbl.mem seen k) then begin Hashtbl.add seen k (); Queue.add (s1, p1) queue end)
      en
  done;
  (List.rev !out, Hashtbl.length seen)

(* one schedule per (reachable model state, thread parked before the held mutex): path to the state, then f<tid> *)
let enum_forced s0 max =
  let seen = Hashtbl.create 1024 in
  let queue = Queue.create () in
  let out = ref [] and cnt = ref 0 in
  Hashtbl.add seen (key_of_state s0) ();
  Queue.add (s0, []) queue;
  while not (Queue.is_empty queue) && !cnt < max do
    let (s, path) = Queue.pop queue in
    let en = enabled_list s in
    List.iter (fun i ->
        if not (List.mem i en) && wc_at_lock (pc_of s i) && !cnt < max then begin
          out := (sched_str (List.rev path) ^ (if path = [] then "" else ",") ^ "f" ^ string_of_int i) :: !out; incr cnt end)
      (List.init (nthreads s) (fun i -> i));
    List.iter (fun i ->
        let (s1, _) = wc_hstep s (IRun (nat_of_int i)) in
        let k = key_of_state s1 in
        if not (Hashtbl.mem seen k) then begin Hashtbl.add seen k (); Queue.add (s1, i :: path) queue end)
      en
  done;
  (List.rev !out, Hashtbl.length seen)

let () =
  (* c16 progs=.. sched=.. [fault=storeearly|norecheck] *)
  Registry.register "c16" (fun toks ->
      let m = kv toks in
      let fault = fault_of m in
      let chans = ref [] and inlock = ref None in
      let (s1, tr) = run_steps fault inlock chans (wc_init (parse_progs (get m "progs"))) (parse_sched (get m "sched")) in
      let (s2, fin) = finish fault inlock chans s1 in
      let tail = match waiting_threads s2 with
        | None -> " DEADLOCK"
        | Some [] -> " end=" ^ string_of_bool (sh_st (wc_sh s2) = WClosed)
        | Some w ->
          let s3 = ref (release s2) in
          let rel = List.map (fun i ->
              let (s4, acts) = wc_step !s3 (IRun (nat_of_int i)) in
              s3 := s4;
              string_of_int i ^ ":" ^ show_step chans s4 (nat_of_int i) acts) w in
          " waiting=" ^ String.concat "," (List.map string_of_int w)
          ^ " end=" ^ string_of_bool (sh_st (wc_sh s2) = WClosed) ^ " rel=" ^ String.concat "," rel in
      "steps=" ^ tr ^ " fin=" ^ fin ^ tail);
  (* c16enum mode=all|edges max=N progs=..  ->  states=<n> scheds=s1;s2;... *)
  Registry.register "c16enum" (fun toks ->
      let m = kv toks in
      let max = int_of_string (get m "max") in
      let s0 = wc_init (parse_progs (get m "progs")) in
      if get m "mode" = "all" then
        let l = enum_all s0 max in
        "states=0 scheds=" ^ String.concat ";" (List.map sched_str l)
      else if get m "mode" = "forced" then
        let (l, n) = enum_forced s0 max in
        Printf.sprintf "states=%d scheds=%s" n (String.concat ";" l)
      else
        let (l, n) = enum_edges s0 max in
        Printf.sprintf "states=%d scheds=%s" n (String.concat ";" (List.map sched_str l)))
