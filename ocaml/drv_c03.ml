(* drv_c03.ml -- model side of the wheel cases (C03): runs coq/models/Wheel.v on the same
   (step, buckets, ticks, programs, schedule) the real code runs under the cooperative
   scheduler, and enumerates schedules (generator only, nothing is trusted from it). *)
open Model
open Conv

let kv toks =
  List.filter_map (fun t -> match String.index_opt t '=' with
    | Some i -> Some (String.sub t 0 i, String.sub t (i+1) (String.length t - i - 1))
    | None -> None) toks
let get m k = try List.assoc k m with Not_found -> ""
let split_ne c s = if s = "" then [] else String.split_on_char c s
let int_list s = List.map int_of_string (split_ne ',' s)

let parse_op (o : string) : wh_op =
  let arg () = z_of_string (String.sub o 1 (String.length o - 1)) in
  match o.[0] with
  | 'N' -> WhNew (arg ())
  | 'A' -> WAfter (arg ())
  | 'R' -> if String.length o = 1 then WReset None else WReset (Some (arg ()))
  | _ -> failwith ("bad op " ^ o)

let parse_progs (s : string) : wh_op list list =
  List.map (fun p -> List.map parse_op (split_ne '.' p)) (String.split_on_char ';' s)

let order_of m = if get m "order" = "orig" then WOrig else WFixed

let init_of m =
  wh_init (z_of_string (get m "step")) (nat_of_int (int_of_string (get m "n")))
    (nat_of_int (int_of_string (get m "ticks"))) (parse_progs (get m "progs"))

let show_ev o s i ev = match ev with
  | WETickRet (_, _) -> "r:tick"
  | WERet (_, _, _, _) -> "r:req"
  | WENone -> "done"
  | WEPanicRange _ -> "panic:step_should_be_in_range_[0__maxTimeout)"
  | WEPanicClose _ -> "panic:close_of_closed_channel"
  | WEPanicIndex -> "panic:runtime_error:_index_out_of_range"
  | _ -> "y" ^ string_of_int (int_of_nat (wh_site o s i))

let nthreads s = 1 + List.length (wh_threads s)

(* per-request records collected from the events: (tid, op) -> k0, k1, cret, channel *)
type rrec = { tid : int; op : int; k0 : int; mutable k1 : int; mutable cret : int;
              mutable ch : int; mutable state : int (* 0 running, 1 returned, 2 panicked *) }

type collector = { mutable recs : rrec list; opcount : (int, int) Hashtbl.t }
let new_collector () = { recs = []; opcount = Hashtbl.create 8 }

let collect c s1 tid ev =
  let start k0 =
    let n = try Hashtbl.find c.opcount tid with Not_found -> 0 in
    Hashtbl.replace c.opcount tid (n + 1);
    let r = { tid; op = n; k0; k1 = 0; cret = 0; ch = -1; state = 0 } in
    c.recs <- r :: c.recs; r in
  match ev with
  | WEInv (_, _, k0) -> ignore (start (int_of_nat k0))
  | WEPanicRange _ -> let r = start (int_of_nat (wh_nclosed s1)) in r.state <- 2
  | WERet (_, _, k1, ch) ->
    (match List.find_opt (fun r -> r.tid = tid && r.state = 0) c.recs with
     | Some r -> r.k1 <- int_of_nat k1; r.cret <- int_of_nat (wh_nclosed s1); r.ch <- int_of_nat ch; r.state <- 1
     | None -> failwith "return without invocation")
  | _ -> ()

let run_steps o c s sched =
  let buf = Buffer.create 64 in
  let s = ref s in
  List.iteri (fun k i ->
      let (s1, ev) = wh_step o !s (nat_of_int i) in
      if k > 0 then Buffer.add_char buf ',';
      Buffer.add_string buf (show_ev o s1 (nat_of_int i) ev);
      collect c s1 i ev;
      s := s1) sched;
  (!s, Buffer.contents buf)

(* round-robin completion, as the harness *)
let finish o c s =
  let buf = Buffer.create 64 in
  let s = ref s and first = ref true and go = ref true and n = ref 0 in
  while !go && !n < 4096 do
    incr n;
    let progressed = ref false in
    for i = 0 to nthreads !s - 1 do
      if wh_enabled !s (nat_of_int i) then begin
        let (s1, ev) = wh_step o !s (nat_of_int i) in
        if not !first then Buffer.add_char buf ',';
        first := false;
        Buffer.add_string buf (string_of_int i ^ ":" ^ show_ev o s1 (nat_of_int i) ev);
        collect c s1 i ev;
        s := s1; progressed := true
      end
    done;
    if not !progressed then go := false
  done;
  (!s, Buffer.contents buf, !go)

let rec run_ticker o s =
  if wh_enabled s O then run_ticker o (fst (wh_step o s O)) else s

let reqs_str c s =
  let l = List.sort (fun a b -> compare (a.tid, a.op) (b.tid, b.op)) c.recs in
  String.concat "," (List.filter_map (fun r ->
      match r.state with
      | 2 -> Some (Printf.sprintf "%d.%d:%d:panic" r.tid r.op r.k0)
      | 1 ->
        let f = match wh_closed_at s (nat_of_int r.ch) with
          | Some g -> "f" ^ string_of_int (int_of_nat g) | None -> "never" in
        Some (Printf.sprintf "%d.%d:%d:%d:%d:%s" r.tid r.op r.k0 r.k1 r.cret f)
      | _ -> None) l)

let key_of_state s = Marshal.to_string s [Marshal.No_sharing]

let enabled_list s =
  List.filter (fun i -> wh_enabled s (nat_of_int i)) (List.init (nthreads s) (fun i -> i))

let sched_str l = String.concat "," (List.map string_of_int l)

(* all maximal interleavings (DFS), at most max of them *)
let enum_all o s0 max =
  let out = ref [] and cnt = ref 0 in
  let rec go s path =
    if !cnt < max then
      match enabled_list s with
      | [] -> out := List.rev path :: !out; incr cnt
      | en -> List.iter (fun i -> let (s1, _) = wh_step o s (nat_of_int i) in go s1 (i :: path)) en in
  go s0 [];
  List.rev !out

(* one schedule per (reachable state, enabled thread) edge: BFS over distinct model states *)
let enum_edges o s0 max =
  let seen = Hashtbl.create 1024 in
  let queue = Queue.create () in
  let out = ref [] and cnt = ref 0 in
  Hashtbl.add seen (key_of_state s0) ();
  Queue.add (s0, []) queue;
  while not (Queue.is_empty queue) && !cnt < max do
    let (s, path) = Queue.pop queue in
    List.iter (fun i ->
        let (s1, _) = wh_step o s (nat_of_int i) in
        let p1 = i :: path in
        if !cnt < max then begin out := List.rev p1 :: !out; incr cnt end;
        let k = key_of_state s1 in
        if not (Hashtbl.mem seen k) then begin Hashtbl.add seen k (); Queue.add (s1, p1) queue end)
      (enabled_list s)
  done;
  (List.rev !out, Hashtbl.length seen)

let () =
  (* c03 [order=orig] step= n= ticks= progs= sched= *)
  Registry.register "c03" (fun toks ->
      let m = kv toks in
      let o = order_of m in
      let c = new_collector () in
      let (s1, tr) = run_steps o c (init_of m) (int_list (get m "sched")) in
      let (s2, fin, live) = finish o c s1 in
      if live then "steps=" ^ tr ^ " fin=" ^ fin ^ " LIVELOCK" else
      let dead = (match wh_tpc_of s2 with WTDead -> true | _ -> false) in
      let s3 = if dead then s2 else run_ticker o (wh_more_ticks s2 (wh_n s2)) in
      "steps=" ^ tr ^ " fin=" ^ fin ^ " reqs=" ^ reqs_str c s3);
  (* c03idx step= n= pre= d= [probe=1] : sequential run of the step machine *)
  Registry.register "c03idx" (fun toks ->
      let m = kv toks in
      let step = z_of_string (get m "step") and n = int_of_string (get m "n") in
      if not (wh_new_ok step (z_of_int n)) then "new=panic" else
      let d = z_of_string (get m "d") in
      let nn = nat_of_int n in
      if get m "probe" = "1" then
        (match wh_bucket_index step nn d with None -> "fetch=panic" | Some _ -> "fetch=ok")
      else begin
        let pre = int_of_string (get m "pre") in
        let s = run_ticker WFixed (wh_init step nn (nat_of_int pre) [[WhNew d]]) in
        let rec req s k = (* run the request alone *)
          if k = 0 then (s, None) else
          let (s1, ev) = wh_step WFixed s (S O) in
          match ev with
          | WERet (_, _, _, ch) -> (s1, Some ch)
          | WEPanicRange _ -> (s1, None)
          | _ -> req s1 (k - 1) in
        match req s 16 with
        | (_, None) -> "fetch=panic"
        | (s1, Some ch) ->
          (match wh_closed_at s1 ch with
           | Some _ -> "fire=early"
           | None ->
             let s2 = run_ticker WFixed (wh_more_ticks s1 (nat_of_int (n + 1))) in
             (match wh_closed_at s2 ch with
              | Some g -> "fire=" ^ string_of_int (int_of_nat g)
              | None -> "fire=never"))
      end);
  (* c03enum mode=all|edges max=N [order=orig] step= n= ticks= progs= -> states=<n> scheds=s1;s2;... *)
  Registry.register "c03enum" (fun toks ->
      let m = kv toks in
      let max = int_of_string (get m "max") in
      let o = order_of m in
      let s0 = init_of m in
      if get m "mode" = "all" then
        let l = enum_all o s0 max in
        "states=0 scheds=" ^ String.concat ";" (List.rev (List.rev_map sched_str l))
      else
        let (l, n) = enum_edges o s0 max in
        Printf.sprintf "states=%d scheds=%s" n (String.concat ";" (List.rev (List.rev_map sched_str l))))
