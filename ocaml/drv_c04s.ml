(* drv_c04s.ml -- model side of the cachex call-steps cases (C04 stream "call-steps"): runs the
   small-step machine coq/models/CacheSteps.v on the same (set-up, programs, schedule) the real
   cachex runs under the mutex-aware cooperative scheduler, renders the same per-step
   observation, reports the ghost verdict (bad/mis/log), and enumerates schedules. *)
open Model
open Conv

let kv toks =
  List.filter_map (fun t -> match String.index_opt t '=' with
    | Some i -> Some (String.sub t 0 i, String.sub t (i+1) (String.length t - i - 1))
    | None -> None) toks
let get m k = try List.assoc k m with Not_found -> ""
let split_ne c s = if s = "" then [] else String.split_on_char c s
let tl1 s = String.sub s 1 (String.length s - 1)
let ios = int_of_string
let zi n = z_of_int n

(* normalExpire = 1 h, errorExpire = 20 min, in seconds *)
let cfg = { c_normE = zi 3600; c_errE = zi 1200 }

let parse_op (o : string) : cs_op =
  match o.[0], String.split_on_char ':' (tl1 o) with
  | 'L', [k] -> CsLoad (z_of_string k)
  | 'G', [k] -> CsGet2 (z_of_string k)
  | 'S', [k; v; e] -> CsSet (z_of_string k, z_of_string v, z_of_string e)
  | 'F', [_; v; e] -> CsFinish (z_of_string v, z_of_string e)
  | 'Z', _ -> CsSweep
  | _ -> failwith ("bad op " ^ o)

let parse_progs s = List.map (fun p -> List.map parse_op (split_ne '.' p)) (String.split_on_char ';' s)

let parse_item (t : string) : cs_item =
  if t.[0] = 't' then CsTick (z_of_string (tl1 t)) else CsRun (nat_of_int (ios t))
let parse_sched s = List.map parse_item (split_ne ',' s)

let key_of (m : c_state) (f : nat) : z =
  match List.nth_opt (c_futs m) (int_of_nat f) with Some x -> c_fkey x | None -> zi 0

(* set-up: atomic events of Cache.v on the initial memory, plus back-dating *)
let init_mem (s : string) : c_state =
  List.fold_left (fun m o ->
      match o.[0], String.split_on_char ':' (tl1 o) with
      | 'L', [k] -> fst (c_step cfg m (CLoad (z_of_string k)))
      | 'S', [k; v; e] -> fst (c_step cfg m (CSet (z_of_string k, z_of_string v, z_of_string e)))
      | 'F', [_; v; e] ->
        (match c_queue m with
         | [] -> failwith "init F: no job"
         | f :: _ ->
           let k = key_of m f in
           let m1 = fst (c_step cfg m (CStart k)) in
           let rec rank i = function [] -> failwith "rank" | x :: r -> if x = f then i else rank (if key_of m1 x = k then i + 1 else i) r in
           fst (c_step cfg m1 (CFinish (k, nat_of_int (rank 0 (c_running m1)), z_of_string v, z_of_string e))))
      | 'B', [f; age] -> cs_backdate m (nat_of_int (ios f)) (z_of_string age)
      | _ -> failwith ("bad init op " ^ o)) c_init (split_ne ',' s)

let site_name n = match n with
  | 1 -> "yBL" | 2 -> "yAL" | 3 -> "yAU" | 4 -> "yLU" | 5 -> "yRE" | 6 -> "yLP" | 7 -> "ySU" | 8 -> "ySP"
  | 9 -> "ySJ" | 100 -> "yLD" | n -> "y?" ^ string_of_int n

let show_ev (ev : cs_ev) : string =
  match ev with
  | CsEvYield (_, Some x) -> "yFW:f" ^ string_of_int (int_of_nat x)
  | CsEvYield (site, None) -> site_name (int_of_z site)
  | CsEvRet (CsRFut (f, _)) -> "r:f" ^ string_of_int (int_of_nat f)
  | CsEvRet (CsRVal (v, e)) -> "r:" ^ string_of_z v ^ ":" ^ string_of_z e
  | CsEvRet CsRNone -> "r:-"
  | CsEvRet (CsRFin _) -> "r:fin"
  | CsEvRet CsRNoJob -> "r:nojob"
  | CsEvBlocked -> "blocked"
  | CsEvDone -> "done"
  | CsEvTick -> "tick"

let rec lookup (m : (z * nat) list) (k : z) = match m with
  | [] -> None | (k', f) :: r -> if k' = k then Some f else lookup r k

let show_obs nkeys (s : cs_state) (ev : cs_ev) : string =
  let m = cs_m s in
  let ents = List.init nkeys (fun i -> match lookup (c_map m) (zi i) with Some f -> string_of_int (int_of_nat f) | None -> "-") in
  let futs = List.map (fun x ->
      (match c_fdone x with Some _ -> "1" | None -> "0") ^
      (match c_fpred x with Some p -> string_of_int (int_of_nat p) | None -> "-")) (c_futs m) in
  Printf.sprintf "%s/q%d/m%s/%s" (show_ev ev) (List.length (c_queue m)) (String.concat "." ents) (String.concat "," futs)

let nthreads s = List.length (cs_thr s)
let finished (t : cs_thread) = ct_pc t = CsIdle && ct_prog t = [] && ct_op t = None
let enabled s i =
  let t = List.nth (cs_thr s) i in
  not (finished t) && not (cs_blocked s t)

let show_out (o : c_out) : string =
  match o with
  | OLoad (f, c) -> "L" ^ string_of_int (int_of_nat f) ^ (if c then "+" else "-")
  | OImmediate -> "I"
  | OAwait f -> "A" ^ string_of_int (int_of_nat f)
  | OStart f -> "B" ^ string_of_int (int_of_nat f)
  | OFinish f -> "F" ^ string_of_int (int_of_nat f)
  | ONone -> "."
  | OBad -> "BAD"

let show_log s =
  String.concat "," (List.rev_map (fun (((tid, _), _), o) -> string_of_int (int_of_nat tid) ^ ":" ^ show_out o) (cs_log s))

(* verdict of the machine with the refined ghost (CacheStepsFull.v) on the last case run in the
   Fixed order: "fbad=<b> fmis=<b> fsame=<b> fsim=<b>" (fsame: same memory, mutex, pcs and tick
   flag as the machine of CacheSteps.v; fsim: the Cache.v history cx_trans of the refined history
   has the same visible events and outputs) *)
let last_full = ref ""

let run_case md nkeys s0 sched =
  let buf = Buffer.create 256 in
  let s = ref s0 in
  let fs = ref { cf_s = s0; cf_xevs = [] } in
  let fstep it = if md = CsFixed then fs := fst (cf_step cfg !fs it) in
  List.iteri (fun i it ->
      let (s1, ev) = cs_step md cfg !s it in
      fstep it;
      if i > 0 then Buffer.add_char buf ';';
      Buffer.add_string buf (show_obs nkeys s1 ev);
      s := s1) sched;
  let fin = Buffer.create 256 in
  let first = ref true and go = ref true and n = ref 0 in
  while !go && !n < 4096 do
    incr n;
    let progressed = ref false in
    for i = 0 to nthreads !s - 1 do
      if enabled !s i then begin
        let (s1, ev) = cs_step md cfg !s (CsRun (nat_of_int i)) in
        fstep (CsRun (nat_of_int i));
        if not !first then Buffer.add_char fin ';';
        first := false;
        Buffer.add_string fin (string_of_int i ^ ":" ^ show_obs nkeys s1 ev);
        s := s1; progressed := true
      end
    done;
    if not !progressed then go := false
  done;
  let stuck = List.filter (fun i -> not (finished (List.nth (cs_thr !s) i))) (List.init (nthreads !s) (fun i -> i)) in
  let end_ = if stuck = [] then "ok" else "stuck:" ^ String.concat "," (List.map string_of_int stuck) in
  (if md = CsFixed then begin
     let f = cf_s !fs in
     let same = cs_m f = cs_m !s && cs_lock f = cs_lock !s && cs_bad f = cs_bad !s
                && List.map (fun t -> (ct_pc t, ct_prog t, ct_op t)) (cs_thr f) = List.map (fun t -> (ct_pc t, ct_prog t, ct_op t)) (cs_thr !s) in
     let m0 = cs_g s0 in
     let xevs = List.rev (cf_xevs !fs) in
     let sim = c_vis_outputs cfg m0 (cx_trans cfg m0 m0 xevs) = cx_vis_outputs cfg m0 xevs in
     last_full := Printf.sprintf " fbad=%s fmis=%s fsame=%s fsim=%s" (if cs_bad f then "1" else "0") (if cs_mis f then "1" else "0")
                    (if same then "1" else "0") (if sim then "1" else "0")
   end else last_full := "");
  (!s, Printf.sprintf "steps=%s fin=%s end=%s" (Buffer.contents buf) (Buffer.contents fin) end_)

let state_key s =
  Marshal.to_string (cs_m s, cs_lock s, List.map (fun t -> (ct_pc t, ct_prog t, ct_op t)) (cs_thr s)) []

let enabled_list s = List.filter (enabled s) (List.init (nthreads s) (fun i -> i))

let item_str = function CsRun i -> string_of_int (int_of_nat i) | CsTick dt -> "t" ^ string_of_z dt
let sched_str l = String.concat "," (List.map item_str l)

(* all maximal interleavings (DFS), at most max; with ticks = (dt, n): up to n ticks of dt anywhere *)
let enum_all md s0 max ticks =
  let out = ref [] and cnt = ref 0 in
  let (dt, nt) = ticks in
  let rec go s path left =
    if !cnt < max then begin
      (match enabled_list s with
       | [] -> out := List.rev path :: !out; incr cnt
       | en -> List.iter (fun i -> let it = CsRun (nat_of_int i) in go (fst (cs_step md cfg s it)) (it :: path) left) en);
      if left > 0 && enabled_list s <> [] then begin
        let it = CsTick (zi dt) in
        (* a tick directly after a tick is covered by left-1 ticks of the double size: skip *)
        (match path with CsTick _ :: _ -> () | _ -> go (fst (cs_step md cfg s it)) (it :: path) (left - 1))
      end
    end in
  go s0 [] nt;
  List.rev !out

(* one schedule per (reachable memory/pc state, thread) edge incl. disabled steps *)
let enum_edges md s0 max =
  let seen = Hashtbl.create 1024 in
  let queue = Queue.create () in
  let out = ref [] and cnt = ref 0 in
  Hashtbl.add seen (state_key s0) ();
  Queue.add (s0, []) queue;
  while not (Queue.is_empty queue) && !cnt < max do
    let (s, path) = Queue.pop queue in
    let en = enabled_list s in
    List.iter (fun i ->
        if not (List.mem i en) && not (finished (List.nth (cs_thr s) i)) && !cnt < max then begin
          out := List.rev (CsRun (nat_of_int i) :: path) :: !out; incr cnt end) (List.init (nthreads s) (fun i -> i));
    List.iter (fun i ->
        let it = CsRun (nat_of_int i) in
        let s1 = fst (cs_step md cfg s it) in
        let p1 = it :: path in
        if !cnt < max then begin out := List.rev p1 :: !out; incr cnt end;
        let k = state_key s1 in
        if not (Hashtbl.mem seen k) then begin Hashtbl.add seen k (); Queue.add (s1, p1) queue end) en
  done;
  (List.rev !out, Hashtbl.length seen)

let b2s b = if b then "1" else "0"
let mode_of m = if get m "order" = "orig" then CsOrig else CsFixed

let () =
  Registry.register "c04s" (fun toks ->
      let m = kv toks in
      let nkeys = if get m "keys" = "" then 1 else ios (get m "keys") in
      let s0 = cs_init_on (init_mem (get m "init")) (parse_progs (get m "progs")) in
      let (s1, tr) = run_case (mode_of m) nkeys s0 (parse_sched (get m "sched")) in
      Printf.sprintf "%s | bad=%s mis=%s log=%s%s" tr (b2s (cs_bad s1)) (b2s (cs_mis s1)) (show_log s1) !last_full);
  (* [order=orig] selects the step order of the code before commit 4caabe5 *)
  (* c04senum mode=all|edges max=N [tick=dt:n] init=.. progs=..  ->  states=<n> scheds=s1;s2;... *)
  Registry.register "c04senum" (fun toks ->
      let m = kv toks in
      let max = ios (get m "max") in
      let s0 = cs_init_on (init_mem (get m "init")) (parse_progs (get m "progs")) in
      if get m "mode" = "all" then
        let ticks = match split_ne ':' (get m "tick") with [a; b] -> (ios a, ios b) | _ -> (0, 0) in
        let l = enum_all (mode_of m) s0 max ticks in
        "states=0 scheds=" ^ String.concat ";" (List.map sched_str l)
      else
        let (l, n) = enum_edges (mode_of m) s0 max in
        Printf.sprintf "states=%d scheds=%s" n (String.concat ";" (List.map sched_str l)))
