(* drv_c09.ml -- model side of the C09 cases (taskx.Queue, models/TaskQueue.v).

   Case:  c09m size=<S> progs=<prog0>/<prog1>/...  STEP...
     prog = ops separated by ','  :  h:<r>:<e> SendCallback(handler returning (r,e)) | n SendCallback(nil)
                                     t:<r>:<e> SendTask(user task)                  | z SendTask(nil)   | - (empty program)
     STEP = P:<i>:<c> producer i's next call (c = select's choice if both branches are ready)
            R:<k> consumer receives (k = index of the admitted blocked sender)   S Store   D Done   C Close
            G:<i>:<j> a Get2 on what producer i's j-th call returned starts here
   Output: one token per step, then "|" and the final state:
     sent:i:j blocked:i:j skipped:i:j empty:i nil:i recv:i:j:<adm|-> store:i:j done:i:j close:<i+i..|-> none
     get:<r>:<e> (returns at once) | get:blocked | get:noref
     gret:<step of G>:<step of the Done that releases it|never>:<r>:<e>   for every blocked getter
     len=<l0,l1,...> buffer length BEFORE each step ; buf=<i.j,...> ; closed= ; blk=<i,...>
   The Get2 waiters are the model's own (tq_gstep): G starts a waiter (TqGGet h, h = the handle
   the call returned), the event says whether it returns at once or parks; the [released] list
   of a base step's event names the waiters that step released.  The driver only looks up the
   handle and remembers at which step each waiter started. *)
open Model
open Conv

let split_on c s = String.split_on_char c s
let ni = nat_of_int
let ii = int_of_nat

let parse_op (s : string) : tq_op =
  match split_on ':' s with
  | ["h"; r; e] -> TqCallback (Some (z_of_string r, z_of_string e))
  | ["n"] -> TqCallback None
  | ["t"; r; e] -> TqTask (Some (z_of_string r, z_of_string e))
  | ["z"] -> TqTask None
  | _ -> failwith ("bad op " ^ s)

let tid_s (t : tq_task) = let (i, j) = t.tq_id in Printf.sprintf "%d:%d" (ii i) (ii j)

let show_ev (e : tq_ev) : string =
  match e with
  | TqESent (_, t) -> "sent:" ^ tid_s t
  | TqEBlocked (_, t) -> "blocked:" ^ tid_s t
  | TqESkipped (_, t) -> "skipped:" ^ tid_s t
  | TqERetEmpty i -> Printf.sprintf "empty:%d" (ii i)
  | TqERetNil i -> Printf.sprintf "nil:%d" (ii i)
  | TqERecv (t, adm) ->
    "recv:" ^ tid_s t ^ ":" ^ (match adm with None -> "-" | Some (i, _) -> string_of_int (ii i))
  | TqEStore t -> "store:" ^ tid_s t
  | TqEDone t -> "done:" ^ tid_s t
  | TqEClose w -> "close:" ^ (if w = [] then "-" else String.concat "+" (List.map (fun (i, _) -> string_of_int (ii i)) w))
  | TqENone -> "none"

let run_c09 (toks : string list) : string =
  let size = ref 1 and progs = ref [] and steps = ref [] in
  List.iter (fun t ->
    if String.length t > 5 && String.sub t 0 5 = "size=" then size := int_of_string (String.sub t 5 (String.length t - 5))
    else if String.length t >= 6 && String.sub t 0 6 = "progs=" then
      progs := List.map (fun p -> if p = "-" || p = "" then [] else List.map parse_op (split_on ',' p))
                 (split_on '/' (String.sub t 6 (String.length t - 6)))
    else steps := !steps @ [t]) toks;
  let gst = ref (tq_ginit (ni !size) !progs) in
  let out = ref [] and lens = ref [] in
  let gstep_of = Hashtbl.create 16 in   (* waiter number -> step of its G *)
  let grets = ref [] in
  let handle_of i j =
    match List.nth_opt (!gst).tq_base.tq_prods i with
    | None -> None
    | Some p -> List.nth_opt p.tq_rets j in
  List.iteri (fun n t ->
    lens := List.length (!gst).tq_base.tq_buf :: !lens;
    let act = match split_on ':' t with
      | ["P"; i; c] -> Some (TqGBase (TqProd (ni (int_of_string i), c = "1")))
      | ["R"; k] -> Some (TqGBase (TqRecv (ni (int_of_string k))))
      | ["S"] -> Some (TqGBase TqStore)
      | ["D"] -> Some (TqGBase TqDone)
      | ["C"] -> Some (TqGBase TqClose)
      | ["G"; i; j] ->
        (match handle_of (int_of_string i) (int_of_string j) with
         | None | Some TqHNil -> out := "get:noref" :: !out; None
         | Some h -> Some (TqGGet h))
      | _ -> failwith ("bad step " ^ t) in
    match act with
    | None -> ()
    | Some a ->
      let (g1, e) = tq_gstep !gst a in
      gst := g1;
      (match e with
       | TqGEBase (eb, released) ->
         out := show_ev eb :: !out;
         List.iter (fun (w, (r, e)) ->
           grets := Printf.sprintf "gret:%d:%d:%s:%s" (Hashtbl.find gstep_of (ii w)) n (string_of_z r) (string_of_z e) :: !grets)
           released
       | TqGERet (_, (r, e)) -> out := Printf.sprintf "get:%s:%s" (string_of_z r) (string_of_z e) :: !out
       | TqGEPark w -> Hashtbl.replace gstep_of (ii w) n; out := "get:blocked" :: !out)) !steps;
  (* waiters still parked at the end *)
  List.iteri (fun w wt ->
    match wt.tq_w_ret with
    | None -> grets := Printf.sprintf "gret:%d:never:0:0" (Hashtbl.find gstep_of w) :: !grets
    | Some _ -> ()) (!gst).tq_waiters;
  let s = (!gst).tq_base in
  let blk = List.concat (List.mapi (fun i p -> match p.tq_ppc_of with TqPBlocked _ -> [string_of_int i] | TqPIdle -> []) s.tq_prods) in
  String.concat " " (List.rev !out) ^ " | " ^ String.concat " " (List.rev !grets) ^
  Printf.sprintf " len=%s buf=%s closed=%d blk=%s recvd=%d entered=%d"
    (String.concat "," (List.map string_of_int (List.rev !lens)))
    (String.concat "," (List.map (fun t -> let (i, j) = t.tq_id in Printf.sprintf "%d.%d" (ii i) (ii j)) s.tq_buf))
    (if s.tq_closed then 1 else 0) (String.concat "," blk)
    (List.length s.tq_received) (List.length s.tq_entered)

let () = Registry.register "c09m" run_c09
