(* drv_c09.ml -- model side of the C09 cases (taskx.Queue, models/TaskQueue.v).

   Case:  c09m size=<S> progs=<prog0>/<prog1>/...  STEP...
     prog = ops separated by ','  :  h:<r>:<e> SendCallback(handler returning (r,e)) | n SendCallback(nil)
                                     t:<r>:<e> SendTask(user task)                  | z SendTask(nil)   | - (empty program)
     STEP = P:<i>:<c> producer i's next call (c = select's choice if both branches are ready)
            R:<k> consumer receives (k = index of the admitted blocked sender)   S Store   D Done   C Close
            G:<i>:<j> a Get2 on what producer i's j-th call returned starts here
   Output: one token per step, then "|" and the final state:
     sent:i:j blocked:i:j skipped:i:j empty:i nil:i recv:i:j:<adm|-> store:i:j done:i:j close:<i+i..|-> none
     get:<r>:<e> (returns at once) | get:blocked | get:noref
     gret:<step of G>:<step of the Done that releases it|never>:<r>:<e>   for every blocked getter
     len=<l0,l1,...> buffer length BEFORE each step ; buf=<i.j,...> ; closed= ; blk=<i,...> *)
open Model
open Conv

let split_on c s = String.split_on_char c s
let ni = nat_of_int
let ii = int_of_nat

let parse_op (s : string) : tq_op =
  match split_on ':' s with
  | ["h"; r; e] -> TqCallback (Some (z_of_string r, z_of_string e))
  | ["n"] -> TqCallback None
  | ["t"; r; e] -> TqTask (Some (z_of_string r, z_of_string e))
  | ["z"] -> TqTask None
  | _ -> failwith ("bad op " ^ s)

let tid_s (t : tq_task) = let (i, j) = t.tq_id in Printf.sprintf "%d:%d" (ii i) (ii j)

let show_ev (e : tq_ev) : string =
  match e with
  | TqESent (_, t) -> "sent:" ^ tid_s t
  | TqEBlocked (_, t) -> "blocked:" ^ tid_s t
  | TqESkipped (_, t) -> "skipped:" ^ tid_s t
  | TqERetEmpty i -> Printf.sprintf "empty:%d" (ii i)
  | TqERetNil i -> Printf.sprintf "nil:%d" (ii i)
  | TqERecv (t, adm) ->
    "recv:" ^ tid_s t ^ ":" ^ (match adm with None -> "-" | Some (i, _) -> string_of_int (ii i))
  | TqEStore t -> "store:" ^ tid_s t
  | TqEDone t -> "done:" ^ tid_s t
  | TqEClose w -> "close:" ^ (if w = [] then "-" else String.concat "+" (List.map (fun (i, _) -> string_of_int (ii i)) w))
  | TqENone -> "none"

let run_c09 (toks : string list) : string =
  let size = ref 1 and progs = ref [] and steps = ref [] in
  List.iter (fun t ->
    if String.length t > 5 && String.sub t 0 5 = "size=" then size := int_of_string (String.sub t 5 (String.length t - 5))
    else if String.length t >= 6 && String.sub t 0 6 = "progs=" then
      progs := List.map (fun p -> if p = "-" || p = "" then [] else List.map parse_op (split_on ',' p))
                 (split_on '/' (String.sub t 6 (String.length t - 6)))
    else steps := !steps @ [t]) toks;
  let st = ref (tq_init (ni !size) !progs) in
  let out = ref [] and lens = ref [] in
  let pending = ref [] in   (* (step of G, handle) *)
  let grets = ref [] in
  let handle_of i j =
    match List.nth_opt (!st).tq_prods i with
    | None -> None
    | Some p -> List.nth_opt p.tq_rets j in
  List.iteri (fun n t ->
    lens := List.length (!st).tq_buf :: !lens;
    let act = match split_on ':' t with
      | ["P"; i; c] -> Some (TqProd (ni (int_of_string i), c = "1"))
      | ["R"; k] -> Some (TqRecv (ni (int_of_string k)))
      | ["S"] -> Some TqStore
      | ["D"] -> Some TqDone
      | ["C"] -> Some TqClose
      | ["G"; i; j] ->
        (match handle_of (int_of_string i) (int_of_string j) with
         | None | Some TqHNil -> out := "get:noref" :: !out
         | Some h ->
           (match tq_get2 !st h with
            | Some (r, e) -> out := Printf.sprintf "get:%s:%s" (string_of_z r) (string_of_z e) :: !out
            | None -> out := "get:blocked" :: !out; pending := (n, h) :: !pending));
        None
      | _ -> failwith ("bad step " ^ t) in
    match act with
    | None -> ()
    | Some a ->
      let (s1, e) = tq_step !st a in
      st := s1; out := show_ev e :: !out;
      (* getters released by this step *)
      let still = ref [] in
      List.iter (fun (g, h) ->
        match tq_get2 !st h with
        | Some (r, e) -> grets := Printf.sprintf "gret:%d:%d:%s:%s" g n (string_of_z r) (string_of_z e) :: !grets
        | None -> still := (g, h) :: !still) (List.rev !pending);
      pending := List.rev !still) !steps;
  List.iter (fun (g, _) -> grets := Printf.sprintf "gret:%d:never:0:0" g :: !grets) (List.rev !pending);
  let s = !st in
  let blk = List.concat (List.mapi (fun i p -> match p.tq_ppc_of with TqPBlocked _ -> [string_of_int i] | TqPIdle -> []) s.tq_prods) in
  String.concat " " (List.rev !out) ^ " | " ^ String.concat " " (List.rev !grets) ^
  Printf.sprintf " len=%s buf=%s closed=%d blk=%s recvd=%d entered=%d"
    (String.concat "," (List.map string_of_int (List.rev !lens)))
    (String.concat "," (List.map (fun t -> let (i, j) = t.tq_id in Printf.sprintf "%d.%d" (ii i) (ii j)) s.tq_buf))
    (if s.tq_closed then 1 else 0) (String.concat "," blk)
    (List.length s.tq_received) (List.length s.tq_entered)

let () = Registry.register "c09m" run_c09
