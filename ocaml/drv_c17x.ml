(* drv_c17x.ml -- model side of the C17 stream "mutex-stepped": runs MutexWord.v's mx_step on the
   same programs and schedule the generated copy of the toolchain's sync.Mutex (and the real
   loom.Mutex.TryLock) run under the cooperative scheduler, and prints per scheduled step the same
   line as harness/cmd/mxstep: thread, pc before, the access (CAS old/new/outcome, AddInt32 delta,
   load, semaphore call), pc after or the returned value, the state word (mx_enc) and the token
   count after the step.  Also the schedule enumerators (generator only). *)
open Model
open Conv

let kv toks =
  List.filter_map (fun t -> match String.index_opt t '=' with
    | Some i -> Some (String.sub t 0 i, String.sub t (i+1) (String.length t - i - 1))
    | None -> None) toks
let get m k = try List.assoc k m with Not_found -> ""
let split_ne c s = if s = "" then [] else String.split_on_char c s
let int_list s = List.map int_of_string (split_ne ',' s)
let tl s = String.sub s 1 (String.length s - 1)

let parse_op (o : string) : mx_op =
  match o.[0] with
  | 'L' -> (match String.split_on_char ':' (tl o) with
      | [a; b] -> XLock (nat_of_int (int_of_string a), nat_of_int (int_of_string b))
      | _ -> failwith "bad L op")
  | 'T' | 'B' -> XTryLock
  | 'U' -> XUnlock
  | _ -> failwith ("bad op " ^ o)

let parse_progs (s : string) : mx_op list list =
  List.map (fun p -> List.map parse_op (split_ne '.' p)) (String.split_on_char ';' s)

let pc_name = function
  | XIdle -> "Idle" | XLFast _ -> "LFast" | XLLoad _ -> "LLoad" | XLSpin _ -> "LSpin" | XLCas _ -> "LCas"
  | XLSleep _ -> "LSleep" | XLWoke _ -> "LWoke" | XLHand _ -> "LHand" | XT1 -> "T1" | XT2 -> "T2" | XT3 _ -> "T3"
  | XU1 -> "U1" | XUSlow _ -> "USlow" | XULoad -> "ULoad" | XURel _ -> "URel" | XDead -> "Dead"

let enc r = string_of_z (mx_enc r)
let b2s b = if b then "1" else "0"

(* the access a thread parked at [pc] performs when the word is [r] *)
let acc_of pc r =
  match pc with
  | XLFast _ -> "cas:0:1:" ^ b2s (mx_is_zero r)
  | XLLoad _ | XLWoke _ | XULoad -> "ld"
  | XLSpin (_, _, old) -> "cas:" ^ enc old ^ ":" ^ enc { old with xk = true } ^ ":" ^ b2s (mx_w_eqb r old)
  | XLCas (_, _, awoke, stv, old) ->
    "cas:" ^ enc old ^ ":" ^ enc (mx_slow_new awoke stv old) ^ ":" ^ b2s (mx_w_eqb r old)
  | XLSleep _ -> "acq"
  | XLHand exit -> "add:" ^ string_of_int (1 - 8 - (if exit then 4 else 0))
  | XU1 -> "add:-1"
  | XUSlow old ->
    "cas:" ^ enc old ^ ":" ^ enc { old with xk = true; xn = (match old.xn with O -> O | S n -> n) } ^ ":" ^ b2s (mx_w_eqb r old)
  | XURel h -> "rel:" ^ b2s h
  | _ -> ""

let thread s i = List.nth_opt s.xthreads i

let step_line s i =
  let (s1, ev) = mx_step s (nat_of_int i) in
  let what =
    match thread s i with
    | None -> "done"
    | Some th ->
      let before = pc_name th.xpc and acc = acc_of th.xpc s.xword in
      let after = match thread s1 i with Some t -> pc_name t.xpc | None -> "?" in
      (match ev with
       | XENone -> "done"
       | XEBlocked -> "blocked"
       | XESkip -> "skip"
       | XEInv -> "inv>" ^ after
       | XEInt -> before ^ ":" ^ acc ^ ">" ^ after
       | XEAcq how -> before ^ ":" ^ acc ^ ">ret:" ^ (if int_of_nat how >= 3 then "try=true" else "lock")
       | XETryFail -> before ^ ":" ^ acc ^ ">ret:try=false"
       | XEUnlocked -> before ^ ":" ^ acc ^ ">" ^ (if after = "Idle" then "ret:unlock" else after)
       | XERet -> before ^ ":" ^ acc ^ ">ret:unlock"
       | XEPanic -> before ^ ":" ^ acc ^ ">panic") in
  (s1, Printf.sprintf "%d,%s,%s,%d" i what (enc s1.xword) (int_of_nat s1.xsema))

let nthreads s = List.length s.xthreads

let enabled s i =
  match thread s i with
  | None -> false
  | Some th ->
    (match th.xpc with
     | XIdle -> th.xtodo <> []
     | XDead -> false
     | XLSleep _ -> s.xsema <> O
     | _ -> true)

let unfinished s i =
  match thread s i with
  | None -> false
  | Some th -> (match th.xpc with XDead -> false | XIdle -> th.xtodo <> [] | _ -> true)

let enabled_list s = List.filter (enabled s) (List.init (nthreads s) (fun i -> i))

let finish s =
  let buf = Buffer.create 256 in
  let s = ref s and first = ref true and go = ref true and n = ref 0 and stuck = ref true in
  while !go && !n < 4096 do
    incr n;
    let progressed = ref false in
    for i = 0 to nthreads !s - 1 do
      if enabled !s i then begin
        let (s1, l) = step_line !s i in
        if not !first then Buffer.add_char buf ';';
        first := false;
        Buffer.add_string buf l;
        s := s1; progressed := true
      end
    done;
    if not !progressed then begin
      go := false;
      stuck := List.exists (unfinished !s) (List.init (nthreads !s) (fun i -> i))
    end
  done;
  (!s, Buffer.contents buf, !stuck)

let key_of_state (s : mx_state) : string = Marshal.to_string s []

let sched_str l = String.concat "," (List.map string_of_int l)

let step_q s i = fst (mx_step s (nat_of_int i))

(* all maximal interleavings of enabled steps (DFS), at most max; depth-bounded by [depth] *)
let enum_all s0 max depth =
  let out = ref [] and cnt = ref 0 in
  let rec go s path d =
    if !cnt < max then
      match enabled_list s with
      | [] -> out := List.rev path :: !out; incr cnt
      | en -> if d = 0 then (out := List.rev path :: !out; incr cnt)
        else List.iter (fun i -> go (step_q s i) (i :: path) (d - 1)) en in
  go s0 [] depth;
  List.rev !out

(* one schedule per (reachable state, enabled thread) edge: BFS over distinct model states, from the
   state reached by [prefix] *)
let enum_edges s0 prefix max =
  let seen = Hashtbl.create 4096 in
  let queue = Queue.create () in
  let out = ref [] and cnt = ref 0 in
  let s0 = List.fold_left step_q s0 prefix in
  let rp = List.rev prefix in
  Hashtbl.add seen (key_of_state s0) ();
  Queue.add (s0, rp) queue;
  while not (Queue.is_empty queue) && !cnt < max do
    let (s, path) = Queue.pop queue in
    List.iter (fun i ->
        let s1 = step_q s i in
        let p1 = i :: path in
        if !cnt < max then begin out := List.rev p1 :: !out; incr cnt end;
        let k = key_of_state s1 in
        if not (Hashtbl.mem seen k) then begin Hashtbl.add seen k (); Queue.add (s1, p1) queue end)
      (enabled_list s)
  done;
  (List.rev !out, Hashtbl.length seen)

let () =
  Registry.register "c17x" (fun toks ->
      let m = kv toks in
      let s0 = mx_init (parse_progs (get m "progs")) in
      let buf = Buffer.create 256 in
      let s = ref s0 in
      List.iteri (fun k i ->
          let (s1, l) = step_line !s i in
          if k > 0 then Buffer.add_char buf ';';
          Buffer.add_string buf l;
          s := s1) (int_list (get m "sched"));
      let (_, fin, stuck) = finish !s in
      "steps=" ^ Buffer.contents buf ^ " fin=" ^ fin ^ (if stuck then " STUCK" else ""));
  Registry.register "c17xinfo" (fun _ -> "layout=true");
  (* c17xenum mode=all|edges max=N depth=D prefix=0,0,1 progs=..  ->  states=<n> scheds=s1;s2;... *)
  Registry.register "c17xenum" (fun toks ->
      let m = kv toks in
      let max = int_of_string (get m "max") in
      let s0 = mx_init (parse_progs (get m "progs")) in
      if get m "mode" = "all" then
        let depth = if get m "depth" = "" then 200 else int_of_string (get m "depth") in
        let l = enum_all s0 max depth in
        "states=0 scheds=" ^ String.concat ";" (List.map sched_str l)
      else
        let (l, n) = enum_edges s0 (int_list (get m "prefix")) max in
        Printf.sprintf "states=%d scheds=%s" n (String.concat ";" (List.map sched_str l)))
