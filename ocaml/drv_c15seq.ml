(* drv_c15seq.ml -- model side of the C15 cases of harness/cmd/pure/c15seq.go:
   c15S with the nested-less modes 6/7 (re-registered here with srt_less_mode2; identical to
   drv_c15.ml for modes 0..5), c15Q (call sequences on one array store), c15G (concurrent calls
   on private data = each sub-case by itself), c15A (adaptive adversary with a solid prefix). *)
open Model
open Conv

let rec take k l = if k <= 0 then [] else match l with [] -> [] | x :: t -> x :: take (k - 1) t
let rec drop k l = if k <= 0 then l else match l with [] -> [] | _ :: t -> drop (k - 1) t

let rec split_bar (toks : string list) (cur : string list) (acc : string list list) : string list list =
  match toks with
  | [] -> List.rev (List.rev cur :: acc)
  | "|" :: rest -> split_bar rest [] (List.rev cur :: acc)
  | t :: rest -> split_bar rest (t :: cur) acc

let nl_to_string (l : n list) : string = "[" ^ String.concat "," (List.map string_of_n l) ^ "]"

let show_sort2 (r : (z, z) srt_state srt_res) : string =
  match r with
  | SPanic -> "PANIC"
  | SNoFuel -> "NOFUEL"
  | SOk s ->
    Printf.sprintf "k=%s v=%s c=%s br=%s" (zlist_to_string (st_keys s)) (zlist_to_string (st_vals s))
      (string_of_n (st_cmp s)) (nl_to_string (st_br s))

let run_c15s (toks : string list) : string =
  match toks with
  | mode :: _ :: nk :: nv :: rest ->
    let nk = int_of_string nk and nv = int_of_string nv in
    let zs = List.map z_of_string rest in
    if List.length zs <> nk + nv then "BADCASE"
    else show_sort2 (srt_sliceby (srt_less_mode2 (z_of_string mode)) (take nk zs) (take nv (drop nk zs)))
  | _ -> "BADCASE"

let call_of_toks (c : string list) : srt_call =
  match c with
  | mode :: ko :: nk :: vo :: nv :: w :: rest ->
    let nki = int_of_string nk and nvi = int_of_string nv in
    let zs = List.map z_of_string rest in
    { stc_mode = z_of_string mode; stc_ko = nat_of_int (int_of_string ko); stc_nk = nat_of_int nki;
      stc_vo = nat_of_int (int_of_string vo); stc_nv = nat_of_int nvi;
      stc_data = (if w = "1" then Some (take nki zs, take nvi (drop nki zs)) else None) }
  | _ -> failwith "bad c15Q call"

(* the adversary of drv_c15.ml with k items frozen before the sort starts *)
let adversary (n : int) (k : int) (a : int) (b : int) : string =
  let gas = n in
  let v = Array.make n gas in
  let nsolid = ref 0 in
  let cand = ref 0 in
  let freeze x = v.(x) <- !nsolid; incr nsolid in
  for i = 0 to k - 1 do
    let p = (a * i + b) mod n in
    if v.(p) = gas then freeze p
  done;
  let count = ref 0 in
  let less (x : int) (y : int) : bool =
    incr count;
    if v.(x) = gas && v.(y) = gas then begin
      if x = !cand then freeze x else freeze y
    end;
    if v.(x) = gas then cand := x else if v.(y) = gas then cand := y;
    v.(x) < v.(y) in
  let items = List.init n (fun i -> i) in
  match srt_sliceby less items items with
  | SOk s ->
    Array.iteri (fun i x -> if x = gas then freeze i) v;
    let il l = "[" ^ String.concat "," (List.map string_of_int l) ^ "]" in
    Printf.sprintf "k=%s v=%s c=%d f=%s" (il (st_keys s)) (il (st_vals s)) !count (il (Array.to_list v))
  | SPanic -> "PANIC"
  | SNoFuel -> "NOFUEL"

let () =
  Registry.register "c15S" run_c15s;
  (* c15Q ktype cap k_0.. v_0.. | call | call ... *)
  Registry.register "c15Q" (fun toks ->
    match split_bar toks [] [] with
    | (_ :: cp :: init) :: calls ->
      let cp = int_of_string cp in
      let zs = List.map z_of_string init in
      if List.length zs <> 2 * cp then "BADCASE" else
      let st = { sto_keys = take cp zs; sto_vals = drop cp zs } in
      (* the store shown for a call that fails is the store before it; track it *)
      let rec show st rs = match rs with
        | [] -> []
        | SOk (st', n) :: t ->
          Printf.sprintf "k=%s v=%s c=%s" (zlist_to_string (sto_keys st')) (zlist_to_string (sto_vals st')) (string_of_n n)
          :: show st' t
        | SPanic :: t -> "PANIC" :: show st t
        | SNoFuel :: t -> "NOFUEL" :: show st t in
      String.concat " | " (show st (srt_run_calls st (List.map call_of_toks calls)))
    | _ -> "BADCASE");
  (* c15G procs | sub | sub ... : private data, nothing shared: each sub-case by itself *)
  Registry.register "c15G" (fun toks ->
    match split_bar toks [] [] with
    | _ :: subs -> String.concat " | " (List.map run_c15s subs)
    | _ -> "BADCASE");
  Registry.register "c15A" (fun toks -> match toks with
    | [n; k; a; b] -> adversary (int_of_string n) (int_of_string k) (int_of_string a) (int_of_string b)
    | _ -> "BADCASE")
