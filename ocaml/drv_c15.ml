(* drv_c15.ml -- model side of the C15 cases (sortx.SliceBy, sortx.UniqueInt/UniqueString) *)
open Model
open Conv

let nlist_to_string (l : n list) : string =
  "[" ^ String.concat "," (List.map string_of_n l) ^ "]"

let rec take k l = if k <= 0 then [] else match l with [] -> [] | x :: t -> x :: take (k - 1) t
let rec drop k l = if k <= 0 then l else match l with [] -> [] | _ :: t -> drop (k - 1) t

let show_sort (r : (z, z) srt_state srt_res) : string =
  match r with
  | SPanic -> "PANIC"
  | SNoFuel -> "NOFUEL"
  | SOk s ->
    Printf.sprintf "k=%s v=%s c=%s br=%s" (zlist_to_string (st_keys s)) (zlist_to_string (st_vals s))
      (string_of_n (st_cmp s)) (nlist_to_string (st_br s))

(* McIlroy's quicksort adversary ("A killer adversary for quicksort", 1999) played against
   the extracted model itself: items 0..n-1 start as "gas"; a comparison of two gas items
   freezes one of them to the next solid value.  The frozen values, listed by initial
   position, are an input on which the model's pivot choices are as bad as possible. *)
let killer (n : int) (limit : bool) : int list =
  let gas = n in
  let v = Array.make n gas in
  let nsolid = ref 0 in
  let cand = ref 0 in
  let less (x : int) (y : int) : bool =
    if v.(x) = gas && v.(y) = gas then begin
      if x = !cand then (v.(x) <- !nsolid; incr nsolid)
      else (v.(y) <- !nsolid; incr nsolid)
    end;
    if v.(x) = gas then cand := x else if v.(y) = gas then cand := y;
    v.(x) < v.(y) in
  let items = List.init n (fun i -> i) in
  let _ = if limit then srt_sliceby less items items else srt_sliceby_nolimit less items items in
  Array.iteri (fun i x -> if x = gas then (v.(i) <- !nsolid; incr nsolid)) v;
  Array.to_list v

let show_unique (r : ((z list * z list), unit) res) : string =
  match r with
  | Ok (r, a) -> Printf.sprintf "r=%s a=%s" (zlist_to_string r) (zlist_to_string a)
  | Err _ -> "ERR"
  | Panic -> "PANIC"

let () =
  (* c15S mode ktype nk nv k_1..k_nk v_1..v_nv *)
  Registry.register "c15S" (fun toks -> match toks with
    | mode :: _ :: nk :: nv :: rest ->
      let nk = int_of_string nk and nv = int_of_string nv in
      let zs = List.map z_of_string rest in
      if List.length zs <> nk + nv then "BADCASE"
      else show_sort (srt_sliceby_z (z_of_string mode) (take nk zs) (take nv (drop nk zs)))
    | _ -> "BADCASE");
  (* c15V ktype M K_1..K_n : the less callback of the implementation side compares (key, value) pairs
     lexicographically, k = K / M, v = K mod M; in the model that is the plain order on the composite keys
     K with the values v carried along (the model's less sees keys only; a pair order IS a key order on K) *)
  Registry.register "c15V" (fun toks -> match toks with
    | _ :: m :: rest ->
      let m = int_of_string m in
      let ks = List.map int_of_string rest in
      show_sort (srt_sliceby_z (z_of_string "0") (List.map (fun k -> z_of_string (string_of_int k)) ks) (List.map (fun k -> z_of_string (string_of_int (k mod m))) ks))
    | _ -> "BADCASE");
  (* c15N ... : same case format as c15S, run by the model variant WITHOUT the depth limit
     (canary: must differ from the real code on killer inputs) *)
  Registry.register "c15N" (fun toks -> match toks with
    | mode :: _ :: nk :: nv :: rest ->
      let nk = int_of_string nk and nv = int_of_string nv in
      let zs = List.map z_of_string rest in
      if List.length zs <> nk + nv then "BADCASE"
      else show_sort (srt_sliceby_nolimit (srt_less_mode (z_of_string mode)) (take nk zs) (take nv (drop nk zs)))
    | _ -> "BADCASE");
  (* c15P mode lo hi k_1..k_n : one doPivot call of the model on [lo,hi) (model only; used to
     test the unproved hypothesis srt_partition_ok on many inputs) *)
  Registry.register "c15P" (fun toks -> match toks with
    | mode :: lo :: hi :: rest ->
      let ks = List.map z_of_string rest in
      (match srt_do_pivot (srt_less_mode (z_of_string mode)) (z_of_string lo) (z_of_string hi) (srt_init ks ks) with
       | SOk ((mlo, mhi), s) ->
         Printf.sprintf "m=%s,%s k=%s v=%s" (string_of_z mlo) (string_of_z mhi)
           (zlist_to_string (st_keys s)) (zlist_to_string (st_vals s))
       | SPanic -> "PANIC" | SNoFuel -> "NOFUEL")
    | _ -> "BADCASE");
  (* c15K n limit : killer key sequence built against the model *)
  Registry.register "c15K" (fun toks -> match toks with
    | [n; l] -> String.concat " " (List.map string_of_int (killer (int_of_string n) (l = "1")))
    | _ -> "BADCASE");
  (* c15U / c15W x_1..x_n : UniqueInt / UniqueString (strings are "s<int>", same model) *)
  Registry.register "c15U" (fun toks -> show_unique (unq_unique_z (List.map z_of_string toks)));
  Registry.register "c15W" (fun toks -> show_unique (unq_unique_z (List.map z_of_string toks)))
