(* drv_c07mp.ml -- model side of the multi-pool ants scripts (C07, C08; harness tag antsmp).
   The script passes LITERAL option lists; the configuration of the pool and of every task is computed
   here by the extracted Coq functions apo_create / ato_create (models/AntsOptions.v), then the pool's
   event history is replayed by the single-pool machine (Drv_c07.replay) with that configuration
   (justified by ants_multi_pool_projection: each pool of a multi-pool run is a single-pool run).

   antsmprun <fixed|orig> <urg 0|1> <poolopts> <ntasks> <task>... <ev>...
     poolopts: "-" or tokens joined by '+': s<int> | b<id> | bn
     task:     <send>,<opts>|<dur>:<honours>:<val>:<err>|...    opts: "-" or t<int>+r<int>+d0+d1+e+en
     ev:       as for antsrun
   reply: CFG N=<n>,b=<id|-1> <T>,<R>,<discard>,<onerr> ... ## <antsrun reply>
   antscfg <poolopts> <taskopts>...   reply: the CFG part only *)
open Model
open Conv

let split_opts s = if s = "-" || s = "" then [] else String.split_on_char '+' s
let tail s = String.sub s 1 (String.length s - 1)

let parse_popt (o : string) : apo_opt =
  if o = "bn" then ApoBuilder None
  else if o.[0] = 'b' then ApoBuilder (Some (nat_of_int (int_of_string (tail o))))
  else if o.[0] = 's' then ApoSize (z_of_string (tail o))
  else failwith ("bad pool option " ^ o)

let parse_topt (o : string) : ato_opt =
  if o = "e" then AtoError true
  else if o = "en" then AtoError false
  else if o = "d0" then AtoDiscard false
  else if o = "d1" then AtoDiscard true
  else if o.[0] = 't' then AtoTimeout (z_of_string (tail o))
  else if o.[0] = 'r' then AtoRetry (z_of_string (tail o))
  else failwith ("bad task option " ^ o)

let show_pcfg (l : apo_opt list) : string =
  let c = apo_create l in
  Printf.sprintf "N=%s,b=%s" (string_of_z (apo_size c))
    (match apo_builder c with None -> "-1" | Some b -> string_of_int (int_of_nat b))

let show_tcfg (l : ato_opt list) : string =
  let c = ato_create l in
  Printf.sprintf "%s,%s,%d,%d" (string_of_z (ato_timeout c)) (string_of_z (ato_retry c))
    (if ato_discard c then 1 else 0) (if ato_onerr c then 1 else 0)

let parse_mp_task (tok : string) : ato_opt list * an_opts =
  match String.split_on_char '|' tok with
  | hd :: behs ->
    (match String.split_on_char ',' hd with
     | [_send; opts] ->
       let bl = List.map (fun b -> match String.split_on_char ':' b with
           | [dur; h; v; er] ->
             { ab_dur = z_of_string dur; ab_honours = (h = "1");
               ab_val = (if int_of_string v < 0 then None else Some (z_of_string v));
               ab_err = Drv_c07.parse_err er }
           | _ -> failwith "bad behaviour") behs in
       let l = List.map parse_topt (split_opts opts) in
       (l, an_opts_of (ato_create l) bl)
     | _ -> failwith "bad task header")
  | [] -> failwith "bad task"

let () =
  Registry.register "antsmprun" (fun toks ->
      match toks with
      | mode :: urg :: popts :: nt :: rest ->
        let nt = int_of_string nt in
        let rec take i acc l = if i = 0 then (List.rev acc, l) else match l with x :: r -> take (i - 1) (x :: acc) r | [] -> failwith "too few tasks" in
        let (tt, et) = take nt [] rest in
        let pl = List.map parse_popt (split_opts popts) in
        let base = anm_cfg (urg = "1") pl in
        let cfg = if mode = "orig" then { base with an_pub = AnSharedFields } else base in
        let parsed = List.map parse_mp_task tt in
        let tasks = Array.of_list (List.map snd parsed) in
        let evs = List.map Drv_c07.parse_ev et in
        let head = "CFG " ^ String.concat " " (show_pcfg pl :: List.map (fun (l, _) -> show_tcfg l) parsed) ^ " ## " in
        (match Drv_c07.resolutions evs with
         | [one] -> head ^ Drv_c07.run_one cfg tasks one
         | many ->
           let outs = List.sort_uniq compare (List.map (Drv_c07.run_one cfg tasks) many) in
           head ^ "SET " ^ String.concat " || " outs)
      | _ -> failwith "bad antsmprun");
  Registry.register "antscfg" (fun toks ->
      match toks with
      | popts :: rest ->
        "CFG " ^ String.concat " " (show_pcfg (List.map parse_popt (split_opts popts))
                                   :: List.map (fun o -> show_tcfg (List.map parse_topt (split_opts o))) rest)
      | _ -> failwith "bad antscfg")
