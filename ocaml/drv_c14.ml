(* drv_c14.ml -- model side of the C14 cases (sortx.Search) *)
open Model
open Conv

let show_search (o : search_out option) : string =
  match o with
  | None -> "NOFUEL"
  | Some out ->
    Printf.sprintf "r=%s lp=%s ep=%s" (string_of_z (s_result out))
      (zlist_to_string (s_less_probes out)) (zlist_to_string (s_equal_probes out))

let () =
  Registry.register "c14T" (fun toks -> match toks with
    | [n; b; e] -> show_search (search_threshold (z_of_string n) (z_of_string b) (z_of_string e))
    | _ -> "BADCASE");
  (* c14N: the predicates of the implementation side call Search themselves (nested call); in the model a
     call is a pure function of its own count and predicates, so the outer call is the c14T call *)
  Registry.register "c14N" (fun toks -> match toks with
    | [n; b; e] -> show_search (search_threshold (z_of_string n) (z_of_string b) (z_of_string e))
    | _ -> "BADCASE");
  Registry.register "c14A" (fun toks -> match toks with
    | t :: xs -> show_search (search_list_asc (List.map z_of_string xs) (z_of_string t))
    | _ -> "BADCASE");
  Registry.register "c14D" (fun toks -> match toks with
    | t :: xs -> show_search (search_list_desc (List.map z_of_string xs) (z_of_string t))
    | _ -> "BADCASE")
