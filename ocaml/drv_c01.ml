(* drv_c01.ml -- model side of the queue cases (C01/C02): runs coq/models/Queue.v on the
   same (prefill, programs, schedule) the real code runs under the cooperative scheduler,
   and enumerates schedules (generator only, nothing is trusted from it). *)
open Model
open Conv

let kv toks =
  List.filter_map (fun t -> match String.index_opt t '=' with
    | Some i -> Some (String.sub t 0 i, String.sub t (i+1) (String.length t - i - 1))
    | None -> None) toks
let get m k = try List.assoc k m with Not_found -> ""
let split_ne c s = if s = "" then [] else String.split_on_char c s
let int_list s = List.map int_of_string (split_ne ',' s)

let parse_progs (s : string) : q_op list list =
  List.map (fun p -> List.map (fun o ->
      if o = "O" then QPop else QPush (z_of_string (String.sub o 1 (String.length o - 1))))
      (split_ne '.' p)) (String.split_on_char ';' s)

let init_of m = q_init (List.map z_of_string (split_ne ',' (get m "pre"))) (parse_progs (get m "progs"))

let show_ev s i ev = match ev with
  | QERetPush -> "r:push"
  | QELinRetPop v -> let x = string_of_z v in "r:pop=" ^ (if x = "0" then "nil" else x)   (* value 0 = Push(nil) *)
  | QERetEmpty -> "r:pop=nil"
  | QENone -> "done"
  | QEPanic -> "panic:nil"
  | _ -> "y" ^ string_of_int (int_of_nat (q_site s i))

let nthreads s = List.length (q_threads s)

(* round-robin completion, as harness runSchedule *)
let finish s =
  let buf = Buffer.create 64 in
  let s = ref s and first = ref true and go = ref true and n = ref 0 in
  while !go && !n < 4096 do
    incr n;
    let progressed = ref false in
    for i = 0 to nthreads !s - 1 do
      if q_enabled !s (nat_of_int i) then begin
        let (s1, ev) = q_step !s (nat_of_int i) in
        if not !first then Buffer.add_char buf ',';
        first := false;
        Buffer.add_string buf (string_of_int i ^ ":" ^ show_ev s1 (nat_of_int i) ev);
        s := s1; progressed := true
      end
    done;
    if not !progressed then go := false
  done;
  (!s, Buffer.contents buf)

let run_steps s sched =
  let buf = Buffer.create 64 in
  let s = ref s in
  List.iteri (fun k i ->
      let (s1, ev) = q_step !s (nat_of_int i) in
      if k > 0 then Buffer.add_char buf ',';
      Buffer.add_string buf (show_ev s1 (nat_of_int i) ev);
      s := s1) sched;
  (!s, Buffer.contents buf)

(* value 0 stands for a nil value: printed as nil, trailing nils dropped (the harness cannot tell them from "empty") *)
let drain s =
  let l = List.map (fun v -> let x = string_of_z v in if x = "0" then "nil" else x) (q_abs s) in
  let rec trim l = match l with "nil" :: r -> trim r | _ -> l in
  "[" ^ String.concat "," (List.rev (trim (List.rev l))) ^ "]"

let key_of_state s =
  let b = Buffer.create 64 in
  List.iter (fun v -> Buffer.add_string b (string_of_z v); Buffer.add_char b ',') (q_chain s);
  Buffer.add_string b (Printf.sprintf "|%d|%d|" (int_of_nat (q_hi s)) (int_of_nat (q_ti s)));
  List.iter (fun th -> Buffer.add_string b (Marshal.to_string (q_pcof th, List.length (q_todo th)) []);
              Buffer.add_char b '#') (q_threads s);
  Buffer.contents b

let enabled_list s =
  List.filter (fun i -> q_enabled s (nat_of_int i)) (List.init (nthreads s) (fun i -> i))

let sched_str l = String.concat "," (List.map string_of_int l)

(* all maximal interleavings (DFS), at most max of them *)
let enum_all s0 max =
  let out = ref [] and cnt = ref 0 in
  let rec go s path =
    if !cnt < max then
      match enabled_list s with
      | [] -> out := List.rev path :: !out; incr cnt
      | en -> List.iter (fun i -> let (s1, _) = q_step s (nat_of_int i) in go s1 (i :: path)) en in
  go s0 [];
  List.rev !out

(* one schedule per (reachable state, enabled thread) edge: BFS over distinct model states *)
let enum_edges s0 max =
  let seen = Hashtbl.create 1024 in
  let queue = Queue.create () in
  let out = ref [] and cnt = ref 0 in
  Hashtbl.add seen (key_of_state s0) ();
  Queue.add (s0, []) queue;
  while not (Queue.is_empty queue) && !cnt < max do
    let (s, path) = Queue.pop queue in
    List.iter (fun i ->
        let (s1, _) = q_step s (nat_of_int i) in
        let p1 = i :: path in
        if !cnt < max then begin out := List.rev p1 :: !out; incr cnt end;
        let k = key_of_state s1 in
        if not (Hashtbl.mem seen k) then begin Hashtbl.add seen k (); Queue.add (s1, p1) queue end)
      (enabled_list s)
  done;
  (List.rev !out, Hashtbl.length seen)

let () =
  Registry.register "c01" (fun toks ->
      let m = kv toks in
      let (s1, tr) = run_steps (init_of m) (int_list (get m "sched")) in
      let (s2, fin) = finish s1 in
      "steps=" ^ tr ^ " fin=" ^ fin ^ " drain=" ^ drain s2);
  Registry.register "c02" (fun toks ->
      let m = kv toks in
      let (s1, tr) = run_steps (init_of m) (int_list (get m "sched")) in
      let tid = nat_of_int (int_of_string (get m "solo")) in
      let solo = if not (q_busy s1 tid) then "idle" else
          match q_solo (nat_of_int 64) s1 tid with
          | Some k -> string_of_int (int_of_nat k) | None -> "none" in
      (* the solo steps themselves *)
      let s = ref s1 in
      (match q_solo (nat_of_int 64) s1 tid with
       | Some k when q_busy s1 tid -> for _ = 1 to int_of_nat k do s := fst (q_step !s tid) done
       | _ -> ());
      let (s2, fin) = finish !s in
      "steps=" ^ tr ^ " solo=" ^ solo ^ " fin=" ^ fin ^ " drain=" ^ drain s2);
  (* c01enum mode=all|edges max=N pre=.. progs=..  ->  states=<n> scheds=s1;s2;... *)
  Registry.register "c01enum" (fun toks ->
      let m = kv toks in
      let max = int_of_string (get m "max") in
      let s0 = init_of m in
      if get m "mode" = "all" then
        let l = enum_all s0 max in
        "states=0 scheds=" ^ String.concat ";" (List.map sched_str l)
      else
        let (l, n) = enum_edges s0 max in
        Printf.sprintf "states=%d scheds=%s" n (String.concat ";" (List.map sched_str l)))
