(* drv_c20ovl.ml -- model side of c20N (an inner call made from inside the outer call's getWeight).
   In the model a call is a pure function of (sampleNum, totalNum, key order): a call made by the
   callback cannot influence the call in progress, so the model answer is the two stand-alone
   answers (smp_call_result).
   c20N <seed> <k> <n> <j> <k2> <n2> W <w...> R <rank...> W2 <w2...> R2 <rank2...> *)
open Model
open Conv

let rec upto (stop : string) (toks : string list) (acc : string list) : string list * string list =
  match toks with
  | [] -> (List.rev acc, [])
  | t :: rest -> if t = stop then (List.rev acc, rest) else upto stop rest (t :: acc)

let show_res (r : (z list) hp_res * nat) : string =
  match r with
  | (HpOk l, _) -> zlist_to_string l
  | (HpPanic, _) -> "PANIC"
  | (HpNoFuel, _) -> "NOFUEL"

let () =
  Registry.register "c20N" (fun toks -> match toks with
    | _seed :: k :: n :: _j :: k2 :: n2 :: rest ->
      let (_, after_r) = upto "R" rest [] in
      let (ranks, after_w2) = upto "W2" after_r [] in
      let (_, ranks2) = upto "R2" after_w2 [] in
      let outer = { smc_k = z_of_string k; smc_n = z_of_string n; smc_keys = List.map z_of_string ranks; smc_pj = None } in
      let inner = { smc_k = z_of_string k2; smc_n = z_of_string n2; smc_keys = List.map z_of_string ranks2; smc_pj = None } in
      (match smp_run_calls [outer; inner] with
       | [a; b] -> Printf.sprintf "r=%s ir=%s" (show_res a) (show_res b)
       | _ -> "BADCASE")
    | _ -> "BADCASE")
