(* C17: Count / IsLocked / IsWoken / IsStarving as stepped calls (models/MutexObs.v).
   c17k [var=two] op=count|locked|woken|starving w=<w1>,<w2>,...
   -> loads=<n> sites=<s1,..> ret=r:<value> *)
open Model
open Conv

let () =
  Registry.register "c17k" (fun toks ->
      let m = List.filter_map (fun t -> match String.index_opt t '=' with
          | Some i -> Some (String.sub t 0 i, String.sub t (i + 1) (String.length t - i - 1)) | None -> None) toks in
      let get k = try List.assoc k m with Not_found -> "" in
      let var = if get "var" = "two" then MxoTwoLoads else MxoOneLoad in
      let o = match get "op" with
        | "count" -> MxoCount | "locked" -> MxoLocked | "woken" -> MxoWoken | "starving" -> MxoStarving
        | _ -> failwith "bad op" in
      let ws = List.map z_of_string (String.split_on_char ',' (get "w")) in
      let ((n, sites), r) = mx_obs_run var o ws in
      let rs = match o with
        | MxoCount -> string_of_z r
        | _ -> if string_of_z r = "1" then "true" else "false" in
      "loads=" ^ string_of_int (int_of_nat n) ^ " sites=" ^ String.concat "," (List.map (fun s -> string_of_int (int_of_nat s)) sites)
      ^ " ret=r:" ^ rs)
