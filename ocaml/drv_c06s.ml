(* drv_c06s.ml -- model side of the C06 stream "liveness-steps": runs the small-step blocking
   model coq/models/CacheLiveSteps.v (shard mutexes, bounded job channel, worker goroutines,
   ticker flag, clients, future waiters) on the same (configuration, set-up, programs,
   schedule) that the real cachex runs under the cooperative scheduler of
   harness/cmd/coop/c06s.go, renders the same per-step observation, completes the run
   round-robin, and enumerates schedules / explores the reachable states.
   Search and rendering code only; csl_step / csl_enabled / csl_quiet / csl_measure are the
   extracted model. *)
open Model
open Conv

let kv toks =
  List.filter_map (fun t -> match String.index_opt t '=' with
    | Some i -> Some (String.sub t 0 i, String.sub t (i+1) (String.length t - i - 1))
    | None -> None) toks
let get m k = try List.assoc k m with Not_found -> ""
let geti m k d = if get m k = "" then d else int_of_string (get m k)
let split_ne c s = if s = "" then [] else String.split_on_char c s
let tl1 s = String.sub s 1 (String.length s - 1)
let ios = int_of_string
let zi n = z_of_int n

(* normalExpire = 1 h, errorExpire = 20 min, in seconds *)
let ccfg = { c_normE = zi 3600; c_errE = zi 1200 }

let cfg_of m =
  { csl_ord = (if get m "ord" = "orig" then CslOrig else CslFixed);
    csl_cap = nat_of_int (geti m "cap" 1); csl_nsh = nat_of_int (geti m "nsh" 1); csl_exp = ccfg }

let parse_op (o : string) : csl_op =
  match o.[0], String.split_on_char ':' (tl1 o) with
  | 'L', [k] -> CslLoad (z_of_string k)
  | 'G', [k] -> CslGet2 (z_of_string k)
  | 'S', [k; v; e] -> CslSet (z_of_string k, z_of_string v, z_of_string e)
  | 'W', _ -> CslAwait
  | _ -> failwith ("bad op " ^ o)
let parse_progs s = List.map (fun p -> List.map parse_op (split_ne '.' p)) (split_ne ';' s)

(* schedule items: <i> client i | w<j> worker j (job branch / next step; loader result 9,0) |
   w<j>e the same with loader result (0,3) | w<j>t worker j takes the tick branch | k the ticker
   fires | a<secs> the clock advances *)
let parse_item (t : string) : csl_item =
  match t.[0] with
  | 'k' -> CslTick
  | 'a' -> CslAdv (z_of_string (tl1 t))
  | 'w' ->
    let n = String.length t in
    (match t.[n - 1] with
     | 't' -> CslW (nat_of_int (ios (String.sub t 1 (n - 2))), true, zi 9, zi 0)
     | 'e' -> CslW (nat_of_int (ios (String.sub t 1 (n - 2))), false, zi 0, zi 3)
     | _ -> CslW (nat_of_int (ios (tl1 t)), false, zi 9, zi 0))
  | _ -> CslC (nat_of_int (ios t))
let parse_sched s = List.map parse_item (split_ne ',' s)

let item_str = function
  | CslC i -> string_of_int (int_of_nat i)
  | CslW (i, true, _, _) -> "w" ^ string_of_int (int_of_nat i) ^ "t"
  | CslW (i, false, _, e) -> "w" ^ string_of_int (int_of_nat i) ^ (if e = Z0 then "" else "e")
  | CslTick -> "k"
  | CslAdv dt -> "a" ^ string_of_z dt
let sched_str l = String.concat "," (List.map item_str l)

let key_of (m : c_state) (f : nat) : z =
  match List.nth_opt (c_futs m) (int_of_nat f) with Some x -> c_fkey x | None -> zi 0

(* set-up: atomic events of Cache.v on the empty memory, plus back-dating (syntax of c04s) *)
let init_mem (s : string) : c_state =
  List.fold_left (fun m o ->
      match o.[0], String.split_on_char ':' (tl1 o) with
      | 'L', [k] -> fst (c_step ccfg m (CLoad (z_of_string k)))
      | 'S', [k; v; e] -> fst (c_step ccfg m (CSet (z_of_string k, z_of_string v, z_of_string e)))
      | 'F', [_; v; e] ->
        (match c_queue m with
         | [] -> failwith "init F: no job"
         | f :: _ ->
           let k = key_of m f in
           let m1 = fst (c_step ccfg m (CStart k)) in
           let rec rank i = function [] -> failwith "rank" | x :: r -> if x = f then i else rank (if key_of m1 x = k then i + 1 else i) r in
           fst (c_step ccfg m1 (CFinish (k, nat_of_int (rank 0 (c_running m1)), z_of_string v, z_of_string e))))
      | 'B', [f; age] -> cs_backdate m (nat_of_int (ios f)) (z_of_string age)
      | _ -> failwith ("bad init op " ^ o)) c_init (split_ne ',' s)

let site_name n = match n with
  | 1 -> "yBL" | 2 -> "yAL" | 3 -> "yAU" | 4 -> "yLU" | 5 -> "yRE" | 6 -> "yLP" | 7 -> "ySU" | 8 -> "ySP"
  | 9 -> "ySJ" | 100 -> "yLD" | 101 -> "ySEL" | n -> "y?" ^ string_of_int n

let show_ev (ev : cs_ev) : string =
  match ev with
  | CsEvYield (_, Some x) -> "yFW:f" ^ string_of_int (int_of_nat x)
  | CsEvYield (site, None) -> site_name (int_of_z site)
  | CsEvRet (CsRFut (f, _)) -> "r:f" ^ string_of_int (int_of_nat f)
  | CsEvRet (CsRVal (v, e)) -> "r:" ^ string_of_z v ^ ":" ^ string_of_z e
  | CsEvRet CsRNone -> "r:-"
  | CsEvRet (CsRFin _) -> "r:fin"
  | CsEvRet CsRNoJob -> "r:nojob"
  | CsEvBlocked -> "blocked"
  | CsEvDone -> "done"
  | CsEvTick -> "env"

let rec lookup (m : (z * nat) list) (k : z) = match m with
  | [] -> None | (k', f) :: r -> if k' = k then Some f else lookup r k

(* <ev>/q<queue length>/k<tick pending>/m<map entry per key>/<per future: done, predecessor> *)
let show_obs nkeys (s : csl_state) (ev : string) : string =
  let m = csl_m s in
  let ents = List.init nkeys (fun i -> match lookup (c_map m) (zi i) with Some f -> string_of_int (int_of_nat f) | None -> "-") in
  let futs = List.map (fun x ->
      (match c_fdone x with Some _ -> "1" | None -> "0") ^
      (match c_fpred x with Some p -> string_of_int (int_of_nat p) | None -> "-")) (c_futs m) in
  Printf.sprintf "%s/q%d/k%d/m%s/%s" ev (List.length (c_queue m)) (if csl_tk s then 1 else 0)
    (String.concat "." ents) (String.concat "," futs)

let nclients s = List.length (csl_cl s)
let nworkers s = List.length (csl_wk s)

(* a disabled step: a finished client answers "done", everything else "blocked" *)
let disabled_ev s it =
  match it with
  | CslC i -> (match List.nth_opt (csl_cl s) (int_of_nat i) with
      | Some t -> if csl_client_done t then "done" else "blocked"
      | None -> "done")
  | CslW (i, _, _, _) -> if int_of_nat i < nworkers s then "blocked" else "done"
  | _ -> "blocked"

let step_obs cfg nkeys s it =
  match csl_step cfg s it with
  | Some (s1, ev) -> (s1, show_obs nkeys s1 (show_ev ev))
  | None -> (s, show_obs nkeys s (disabled_ev s it))

(* the step the completion phase lets thread number j (clients first, then workers) take *)
let fin_item cfg s j =
  let nc = nclients s in
  if j < nc then (let it = CslC (nat_of_int j) in if csl_enabled cfg s it then Some it else None)
  else begin
    let i = nat_of_int (j - nc) in
    let job = CslW (i, false, zi 9, zi 0) and tick = CslW (i, true, zi 9, zi 0) in
    if csl_enabled cfg s job then Some job else if csl_enabled cfg s tick then Some tick else None
  end

let unfinished s =
  List.filter_map (fun x -> x)
    (List.mapi (fun i t -> if csl_client_done t then None else Some (string_of_int i)) (csl_cl s) @
     List.mapi (fun i w -> if w = CslWSel then None else Some ("w" ^ string_of_int i)) (csl_wk s))

let end_str s =
  if csl_quiet s then "ok"
  else match unfinished s with
    | [] -> "queue"                      (* jobs queued, every worker in select: cannot happen (a worker is enabled) *)
    | l -> "stuck:" ^ String.concat "," l

let run_case cfg nkeys s0 sched =
  let buf = Buffer.create 256 in
  let s = ref s0 in
  List.iteri (fun i it ->
      let (s1, o) = step_obs cfg nkeys !s it in
      if i > 0 then Buffer.add_char buf ';';
      Buffer.add_string buf o;
      s := s1) sched;
  let fin = Buffer.create 256 in
  let first = ref true and go = ref true and n = ref 0 in
  while !go && !n < 4096 do
    incr n;
    let progressed = ref false in
    for j = 0 to nclients !s + nworkers !s - 1 do
      match fin_item cfg !s j with
      | Some it ->
        let (s1, o) = step_obs cfg nkeys !s it in
        if not !first then Buffer.add_char fin ';';
        first := false;
        Buffer.add_string fin (item_str it ^ ":" ^ o);
        s := s1; progressed := true
      | None -> ()
    done;
    if not !progressed then go := false
  done;
  (!s, Printf.sprintf "steps=%s fin=%s end=%s" (Buffer.contents buf) (Buffer.contents fin) (end_str !s))

let state_key s = Marshal.to_string s []

let thread_items s =
  List.init (nclients s) (fun i -> CslC (nat_of_int i)) @
  List.concat (List.init (nworkers s) (fun i -> [CslW (nat_of_int i, false, zi 9, zi 0); CslW (nat_of_int i, true, zi 9, zi 0)]))

let enabled_items cfg s = List.filter (csl_enabled cfg s) (thread_items s)

let step_state cfg s it = match csl_step cfg s it with Some (s1, _) -> s1 | None -> s

(* all maximal interleavings (DFS), at most max; up to nt ticker firings anywhere (not while one is pending) *)
let enum_all cfg s0 max nt =
  let out = ref [] and cnt = ref 0 in
  let rec go s path left =
    if !cnt < max then begin
      let en = enabled_items cfg s in
      (match en with
       | [] -> if left = 0 || csl_tk s then begin out := List.rev path :: !out; incr cnt end
       | _ -> List.iter (fun it -> go (step_state cfg s it) (it :: path) left) en);
      if left > 0 && not (csl_tk s) then go (step_state cfg s CslTick) (CslTick :: path) (left - 1)
    end in
  go s0 [] nt;
  List.rev !out

(* one schedule per (reachable state, thread item) edge incl. disabled steps; ticks: up to nt *)
let enum_edges cfg s0 max nt =
  let seen = Hashtbl.create 1024 in
  let queue = Queue.create () in
  let out = ref [] and cnt = ref 0 in
  Hashtbl.add seen (state_key s0, nt) ();
  Queue.add (s0, [], nt) queue;
  while not (Queue.is_empty queue) && !cnt < max do
    let (s, path, left) = Queue.pop queue in
    let en = enabled_items cfg s in
    List.iter (fun it ->
        if not (List.mem it en) && !cnt < max then
          (* one disabled probe per thread is enough: the job-branch item *)
          (match it with
           | CslW (_, true, _, _) -> ()
           | CslC i when (match List.nth_opt (csl_cl s) (int_of_nat i) with Some t -> csl_client_done t | None -> true) -> ()
           | _ -> out := List.rev (it :: path) :: !out; incr cnt)) (thread_items s);
    let succ = List.map (fun it -> (it, left)) en @ (if left > 0 && not (csl_tk s) then [(CslTick, left - 1)] else []) in
    List.iter (fun (it, l) ->
        let s1 = step_state cfg s it in
        let p1 = it :: path in
        if it <> CslTick && !cnt < max then begin out := List.rev p1 :: !out; incr cnt end;
        let k = (state_key s1, l) in
        if not (Hashtbl.mem seen k) then begin Hashtbl.add seen k (); Queue.add (s1, p1, l) queue end) succ
  done;
  (List.rev !out, Hashtbl.length seen)

(* breadth-first exploration of every reachable state (every interleaving, every select choice,
   up to nt ticker firings): is a deadlock (no thread enabled, not quiet) reachable?  The proved
   measure must decrease on every thread step. *)
let explore cfg s0 nt limit =
  let seen = Hashtbl.create 65536 in
  let q = Queue.create () in
  let push s t path = let k = (state_key s, t) in
    if not (Hashtbl.mem seen k) then (Hashtbl.add seen k (); Queue.add (s, t, path) q) in
  push s0 nt [];
  let dead = ref None and n = ref 0 and maxm = ref 0 and bad = ref "" in
  while not (Queue.is_empty q) && !dead = None && !n < limit do
    let (s, t, path) = Queue.pop q in
    incr n;
    let m = int_of_nat (csl_measure cfg s) in
    if m > !maxm then maxm := m;
    let en = enabled_items cfg s in
    if en = [] && not (csl_quiet s) then dead := Some (s, List.rev path)
    else begin
      if (en = []) <> csl_stuck cfg s then bad := "csl_stuck disagrees with the enabled items";
      List.iter (fun it ->
          let s1 = step_state cfg s it in
          if int_of_nat (csl_measure cfg s1) >= m then bad := "measure did not decrease at " ^ sched_str (List.rev (it :: path));
          push s1 t (it :: path)) en;
      if t > 0 && not (csl_tk s) then push (step_state cfg s CslTick) (t - 1) (CslTick :: path)
    end
  done;
  (!dead, !n, Queue.is_empty q, !maxm, !bad)

let start m =
  let cfg = cfg_of m in
  let mem = init_mem (get m "init") in
  (cfg, mem, csl_init_on mem (nat_of_int (geti m "par" 1)) (parse_progs (get m "progs")))

let () =
  (* c06s ord=fixed|orig par=P cap=C nsh=N keys=n init=.. progs=.. sched=..
       -> steps=<obs>;.. fin=<item>:<obs>;.. end=ok|stuck:<threads> | m0=<measure at start> pending=<0|1> *)
  Registry.register "c06s" (fun toks ->
      let m = kv toks in
      let (cfg, _, s0) = start m in
      let (s1, tr) = run_case cfg (geti m "keys" 1) s0 (parse_sched (get m "sched")) in
      Printf.sprintf "%s | m0=%d pending=%d" tr (int_of_nat (csl_measure cfg s0)) (if csl_pending s1 then 1 else 0));
  (* c06senum mode=all|edges max=N ticks=n <configuration>  ->  states=<n> scheds=s1;s2;... *)
  Registry.register "c06senum" (fun toks ->
      let m = kv toks in
      let (cfg, _, s0) = start m in
      let max = geti m "max" 1000 and nt = geti m "ticks" 0 in
      if get m "mode" = "all" then
        "states=0 scheds=" ^ String.concat ";" (List.map sched_str (enum_all cfg s0 max nt))
      else
        let (l, n) = enum_edges cfg s0 max nt in
        Printf.sprintf "states=%d scheds=%s" n (String.concat ";" (List.map sched_str l)));
  (* c06sx ticks=n limit=N <configuration>  ->  deadlock=<0|1> states=<n> complete=<0|1> maxmeasure=<m> [witness=<sched>] *)
  Registry.register "c06sx" (fun toks ->
      let m = kv toks in
      let (cfg, mem, s0) = start m in
      let (dead, n, complete, maxm, bad) = explore cfg s0 (geti m "ticks" 1) (geti m "limit" 200000) in
      if bad <> "" then "MODEL-EXN " ^ bad
      else
        Printf.sprintf "deadlock=%d states=%d complete=%d maxmeasure=%d memok=%d%s"
          (match dead with Some _ -> 1 | None -> 0) n (if complete then 1 else 0) maxm (if csl_mem_ok mem then 1 else 0)
          (match dead with Some (_, w) -> " witness=" ^ sched_str w | None -> ""))
