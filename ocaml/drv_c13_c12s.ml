(* drv_c13_c12s.ml -- model side of the C12 "reads after stream operations" cases:
     c12s <stream op> ... | <read op> ... | <stream op> ... | <read op> ...   (any number of segments)
   stream ops: token syntax of drv_c13.ml (StreamOps.v); read ops: token syntax of the c12
   cases in drv_c11.ml (Octets.v). The handler only calls brg_phases of the extracted model
   (models/StreamReads.v): StreamOps for the stream-op segments, the state translations
   brg_oct / brg_stm, the Octets readers for the read segments.
   (The file name sorts after drv_c11.ml and drv_c13.ml, whose printers and parsers it uses:
   the driver's modules are linked in file-name order.)
   Output: one part per segment joined by " || ": "<c13S trace>" | "R=<res@pos/len+alloc;...> B=<Bytes()>".
   The run ends after a stream-op part that ends with PANIC. *)
open Model

let split_segments (toks : string list) : string list list =
  let rec go cur acc l = match l with
    | [] -> List.rev (List.rev cur :: acc)
    | "|" :: r -> go [] (List.rev cur :: acc) r
    | t :: r -> go (t :: cur) acc r in
  go [] [] toks

let rec take n l = if n <= 0 then [] else match l with [] -> [] | x :: r -> x :: take (n - 1) r
let rec drop n l = if n <= 0 then l else match l with [] -> [] | _ :: r -> drop (n - 1) r

let run (sv : stm_variant) (v : oct_variant) (toks : string list) : string =
  let segs = split_segments toks in
  let even = List.concat (List.filteri (fun i _ -> i mod 2 = 0) segs) in
  match (try
           (* all stream-op tokens are parsed in one go: the pattern bytes of w<n> continue across segments *)
           let all_ops = ref (Drv_c13.stm_ops even) in
           Some (List.mapi (fun i seg ->
               if i mod 2 = 0 then begin
                 let n = List.length seg in
                 let ops = take n !all_ops in
                 all_ops := drop n !all_ops; BrgOps ops end
               else BrgReads (List.map Drv_c11.op_of_tok seg)) segs)
         with Drv_c13.Bad_op _ | Failure _ | Invalid_argument _ -> None) with
  | None -> "BADCASE"
  | Some gs ->
    let show o = match o with
      | BrgOpsObs t -> String.concat " ; " (List.map Drv_c13.show_stm_line t)
      | BrgReadsObs (rs, b) ->
        "R=" ^ String.concat ";" (List.map Drv_c11.show_rd rs) ^ " B=" ^
        (match b with Ok d -> Drv_c13.hex_of_zlist d | _ -> "PANIC") in
    String.concat " || " (List.map show (brg_phases sv v stm_init gs))

let () =
  Registry.register "c12s" (run StmFixed OctFixed);
  (* canary variant: the pre-fix Seek *)
  Registry.register "c12so" (run StmOrig OctFixed)
