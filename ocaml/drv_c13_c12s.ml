(* drv_c13_c12s.ml -- model side of the C12 "reads after stream operations" cases:
     c12s <stream op> ... | <read op> ...
   stream ops: token syntax of drv_c13.ml (StreamOps.v); read ops: token syntax of the c12
   cases in drv_c11.ml (Octets.v). The handler only calls brg_case of the extracted model
   (models/StreamReads.v): StreamOps for the first part, the state translation brg_oct, the
   Octets readers for the second part.
   (The file name sorts after drv_c11.ml and drv_c13.ml, whose printers and parsers it uses:
   the driver's modules are linked in file-name order.)
   Output: "<c13S trace> || R=<res@pos/len+alloc;...>" ; "|| NOTRUN" if a stream op
   panicked, "|| NEGATIVE-POSITION" if the state has no Octets counterpart. *)
open Model

let split_at_bar (toks : string list) : string list * string list =
  let rec go acc l = match l with
    | [] -> (List.rev acc, [])
    | "|" :: r -> (List.rev acc, r)
    | t :: r -> go (t :: acc) r in
  go [] toks

let run (sv : stm_variant) (v : oct_variant) (toks : string list) : string =
  let (a, b) = split_at_bar toks in
  match (try Some (Drv_c13.stm_ops a, List.map Drv_c11.op_of_tok b)
         with Drv_c13.Bad_op _ | Failure _ | Invalid_argument _ -> None) with
  | None -> "BADCASE"
  | Some (ops, rops) ->
    let (trace, rds) = brg_case sv v ops rops in
    let t = String.concat " ; " (List.map Drv_c13.show_stm_line trace) in
    let panicked = List.exists (fun l -> match l with SLPanic -> true | _ -> false) trace in
    t ^ " || " ^
    (match rds with
     | Some rs -> "R=" ^ String.concat ";" (List.map Drv_c11.show_rd rs)
     | None -> if panicked then "NOTRUN" else "NEGATIVE-POSITION")

let () =
  Registry.register "c12s" (run StmFixed OctFixed);
  (* canary variant: the pre-fix Seek *)
  Registry.register "c12so" (run StmOrig OctFixed)
