(* drv_c10.ml -- model side of the C10 cases (taskx delayed queue, models/Delayed.v).

   Case:  c10m caps=<cap><e|s>,... pq=<0 sorted list|1 sorted list, opposite tie order|2 container/heap> P=<period> t0=<start> tickpos=<n> EV...
   EV (raw timed happenings, in history order, chosen by the python check from the script):
     R:<id>:<trig>:<q>   a request reaches the loop's channel (trig = send instant + delay)
     T:<now>             the ticker fires at now
     K:<q>:<now>         scripted consumer of q tries to receive once
     C:<q>:<now>         q's close channel is closed
   The driver is the discrete-event glue around the model's step function:
     - while the model says the loop is blocked (dl_wait <> []) a request stays in the loop's
       channel and a tick stays in ticker.C (capacity 1: a second one is dropped); when the
       loop is unblocked by a K/C at time now, the pending ones are taken at time now -- the
       pending tick after [tickpos] pending requests (select's choice; tickpos=a,b,c gives one value per
       unblocking at which both kinds are pending, the last one is reused);
     - after every step each eager queue (mode e) is emptied by DlTake events at that time.
   Output: A:<q>:<id>:<t> per received task in order, K:<q>:<now>:<got|empty>, then
   pq= wait= dis= roomy= spaced= timely= mono= rerun= (the theorems' boolean hypotheses on the
   effective history, and whether dl_run on that history reproduces the stepwise outputs). *)
open Model
open Conv

exception Stuck of string

let split_on c s = String.split_on_char c s

let run_c10 (toks : string list) : string =
  let caps = ref [] and modes = ref [] and front = ref 0 in
  let period = ref (z_of_string "1000000000") and t0 = ref Z0 and tickposs = ref [0] in
  let raw = ref [] and dump = ref false in
  List.iter (fun t ->
    if t = "dump=1" then dump := true else
    if String.length t > 5 && String.sub t 0 5 = "caps=" then begin
      let l = split_on ',' (String.sub t 5 (String.length t - 5)) in
      List.iteri (fun i c ->
        let n = String.length c in
        caps := !caps @ [(z_of_int i, nat_of_int (int_of_string (String.sub c 0 (n - 1))))];
        modes := !modes @ [c.[n - 1]]) l
    end
    else if String.length t > 3 && String.sub t 0 3 = "pq=" then front := int_of_string (String.sub t 3 (String.length t - 3))
    else if String.length t > 2 && String.sub t 0 2 = "P=" then period := z_of_string (String.sub t 2 (String.length t - 2))
    else if String.length t > 3 && String.sub t 0 3 = "t0=" then t0 := z_of_string (String.sub t 3 (String.length t - 3))
    else if String.length t > 8 && String.sub t 0 8 = "tickpos=" then tickposs := List.map int_of_string (split_on ',' (String.sub t 8 (String.length t - 8)))
    else raw := !raw @ [t]) toks;
  let impl = dl_pick (nat_of_int !front) in
  let st = ref (dl_init impl !caps) in
  let eff = ref [] in          (* effective history, reversed *)
  let outs = ref [] in         (* all outputs, reversed chunks *)
  let buf = Buffer.create 256 in
  let emit s = if Buffer.length buf > 0 then Buffer.add_char buf ' '; Buffer.add_string buf s in
  let record o =
    List.iter (fun x -> match x with
      | DlGot (q, t, a) -> emit (Printf.sprintf "A:%s:%s:%s" (string_of_z q) (string_of_z t.dl_id) (string_of_z a))
      | _ -> ()) o in
  let apply ev =
    match dl_step impl !st ev with
    | None -> raise (Stuck "drain-out-of-fuel")
    | Some (s1, o) -> st := s1; eff := ev :: !eff; outs := o :: !outs; record o; o in
  let eager_drain now =
    let progress = ref true in
    while !progress do
      progress := false;
      List.iteri (fun i m ->
        if m = 'e' then
          while int_of_nat (dl_buf_len impl !st (z_of_int i)) > 0 do
            ignore (apply (DlTake (z_of_int i, now))); progress := true
          done) !modes
    done in
  let pend_tick = ref false and pend_recv = ref [] in
  let blocked () = dl_is_blocked impl !st in
  (* after a K/C at time now: the loop, if unblocked, takes what is pending *)
  let rec settle now =
    eager_drain now;
    if not (blocked ()) then begin
      let n_done = ref 0 in
      (* select's choice at THIS unblocking: the pending tick is taken after [tickpos] pending requests *)
      let tickpos = ref (match !tickposs with [] -> 0 | x :: _ -> x) in
      if !pend_tick && !pend_recv <> [] then
        (match !tickposs with _ :: (_ :: _ as rest) -> tickposs := rest | _ -> ());
      let continue = ref true in
      while !continue && not (blocked ()) do
        if !pend_tick && (!n_done >= !tickpos || !pend_recv = []) then begin
          pend_tick := false; ignore (apply (DlTick now)); eager_drain now
        end else match !pend_recv with
          | r :: rest -> pend_recv := rest; incr n_done; ignore (apply (DlRecv r))
          | [] -> continue := false
      done
    end in
  List.iter (fun t ->
    match split_on ':' t with
    | ["R"; id; trig; q] ->
      let task = { dl_id = z_of_string id; dl_trig = z_of_string trig; dl_q = z_of_string q } in
      if blocked () || !pend_recv <> [] then pend_recv := !pend_recv @ [task]
      else ignore (apply (DlRecv task))
    | ["T"; now] ->
      let now = z_of_string now in
      if blocked () then pend_tick := true
      else begin ignore (apply (DlTick now)); settle now end
    | ["K"; q; now] ->
      let qz = z_of_string q and now = z_of_string now in
      let o = apply (DlTake (qz, now)) in
      let got = List.exists (fun x -> match x with DlGot _ -> true | _ -> false) o in
      emit (Printf.sprintf "K:%s:%s:%s" q (string_of_z now) (if got then "got" else "empty"));
      settle now
    | ["C"; q; now] ->
      let now = z_of_string now in
      ignore (apply (DlClose (z_of_string q, now))); settle now
    | _ -> raise (Stuck ("bad event " ^ t))) !raw;
  let hist = List.rev !eff in
  let all_outs = List.concat (List.rev !outs) in
  let b x = if x then "1" else "0" in
  let init = dl_init impl !caps in
  let rerun = match dl_run impl init hist with
    | Some (_, o) -> o = all_outs
    | None -> false in
  let ndis = List.length (List.filter (fun x -> match x with DlDisabled _ -> true | _ -> false) all_outs) in
  emit (Printf.sprintf "pq=%d wait=%d pend=%d dis=%d roomy=%s spaced=%s timely=%s mono=%s rerun=%s fw=%d"
    (int_of_nat (dl_pq_size impl !st)) (int_of_nat (dl_wait_len impl !st))
    (List.length !pend_recv + (if !pend_tick then 1 else 0)) ndis
    (b (dl_roomy impl init hist)) (b (dl_spaced !period !t0 hist)) (b (dl_timely !t0 hist))
    (b (dl_mono !t0 hist)) (b rerun) (List.length (dl_forwarded all_outs)));
  List.iter (fun x -> match x with
    | DlAfterClose (t, a) -> emit (Printf.sprintf "X:%s:%s" (string_of_z t.dl_id) (string_of_z a))
    | _ -> ()) all_outs;
  if !dump then
    emit ("H=" ^ String.concat "," (List.map (fun e -> match e with
      | DlRecv t -> Printf.sprintf "R:%s:%s:%s" (string_of_z t.dl_id) (string_of_z t.dl_trig) (string_of_z t.dl_q)
      | DlTick n -> "T:" ^ string_of_z n
      | DlTake (q, n) -> Printf.sprintf "K:%s:%s" (string_of_z q) (string_of_z n)
      | DlClose (q, n) -> Printf.sprintf "C:%s:%s" (string_of_z q) (string_of_z n)) hist));
  Buffer.contents buf

let () = Registry.register "c10m" run_c10
