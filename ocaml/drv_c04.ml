(* drv_c04.ml -- model side of the cachex cases (C04/C05/C06 replay): runs the event
   machine coq/models/Cache.v on an event history and prints its outputs and the final
   future arena; plus the shard-index function. Parsing/printing only. *)
open Model
open Conv

let fields s = String.split_on_char ':' s
let tl1 s = String.sub s 1 (String.length s - 1)

let parse_ev (t : string) : c_event =
  let body = tl1 t in
  match t.[0], fields body with
  | 'L', [k] -> CLoad (z_of_string k)
  | 'G', [k] -> CGet2 (z_of_string k)
  | 'S', [k; v; e] -> CSet (z_of_string k, z_of_string v, z_of_string e)
  | 'B', [k] -> CStart (z_of_string k)
  | 'F', [k; i; v; e] -> CFinish (z_of_string k, nat_of_int (int_of_string i), z_of_string v, z_of_string e)
  | 'W', _ -> CSweep
  | 'A', [dt] -> CAdvance (z_of_string dt)
  | _ -> failwith ("bad event " ^ t)

let show_out (o : c_out) : string =
  match o with
  | OLoad (f, c) -> "L" ^ string_of_int (int_of_nat f) ^ (if c then "+" else "-")
  | OImmediate -> "I"
  | OAwait f -> "A" ^ string_of_int (int_of_nat f)
  | OStart f -> "B" ^ string_of_int (int_of_nat f)
  | OFinish f -> "F" ^ string_of_int (int_of_nat f)
  | ONone -> "."
  | OBad -> "BAD"

let show_fut i (x : c_fut) : string =
  let p = match c_fpred x with Some p -> "p" ^ string_of_int (int_of_nat p) | None -> "p-" in
  match c_fdone x with
  | None -> Printf.sprintf "%d:%s:L:%s" i (string_of_z (c_fkey x)) p
  | Some ((v, e), u) -> Printf.sprintf "%d:%s:%s:%s:%s" i (string_of_z (c_fkey x)) (string_of_z v) (string_of_z e) (string_of_z u)

let show_state (s : c_state) : string =
  let futs = String.concat " " (List.mapi show_fut (c_futs s)) in
  let m = String.concat "," (List.map (fun (k, f) -> string_of_z k ^ ">" ^ string_of_int (int_of_nat f))
            (List.sort compare (c_map s))) in
  let il l = String.concat "," (List.map (fun f -> string_of_int (int_of_nat f)) l) in
  Printf.sprintf "now=%s futs=[%s] map=[%s] q=[%s] run=[%s] disp=[%s]" (string_of_z (c_now s)) futs m
    (il (c_queue s)) (il (c_running s)) (il (c_displaced s))

let kty_of = function
  | "int" -> KInt | "int8" -> KInt8 | "int16" -> KInt16 | "int32" -> KInt32 | "int64" -> KInt64
  | "uint8" -> KUint8 | "uint16" -> KUint16 | "uint32" -> KUint32 | "uint64" -> KUint64
  | "string" -> KString | s -> failwith ("bad key type " ^ s)

let () =
  (* cch <normE> <errE> ev ev ... : outputs | final state *)
  Registry.register "cch" (fun toks -> match toks with
    | ne :: ee :: evs ->
      let cfg = { c_normE = z_of_string ne; c_errE = z_of_string ee } in
      let s = ref c_init in
      let outs = List.map (fun t ->
          let (s', o) = c_step cfg !s (parse_ev t) in
          s := s'; show_out o) evs in
      String.concat " " outs ^ " | " ^ show_state !s
    | _ -> "BADCASE");
  (* csh <type> <count> <value | hex bytes> *)
  Registry.register "csh" (fun toks -> match toks with
    | [ty; count; x] ->
      let t = kty_of ty in
      let r = (match t with
        | KString ->
          let n = String.length x / 2 in
          let bytes = List.init n (fun i -> z_of_int (int_of_string ("0x" ^ String.sub x (2 * i) 2))) in
          c_shard_index t Z0 bytes (z_of_string count)
        | _ -> c_shard_index t (z_of_string x) [] (z_of_string count)) in
      string_of_z r
    | [ty; count] -> string_of_z (c_shard_index (kty_of ty) Z0 [] (z_of_string count))
    | _ -> "BADCASE")
