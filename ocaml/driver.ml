(* driver.ml -- line protocol: one case per line in (stdin), one canonical result per
   line out (stdout). The first token selects the model entry point. *)
open Model
open Conv

let show_search (o : search_out option) : string =
  match o with
  | None -> "NOFUEL"
  | Some out ->
    Printf.sprintf "r=%s lp=%s ep=%s" (string_of_z (s_result out))
      (zlist_to_string (s_less_probes out)) (zlist_to_string (s_equal_probes out))

let handle (toks : string list) : string =
  match toks with
  | "c14T" :: n :: b :: e :: [] ->
    show_search (search_threshold (z_of_string n) (z_of_string b) (z_of_string e))
  | "c14A" :: t :: xs ->
    show_search (search_list_asc (List.map z_of_string xs) (z_of_string t))
  | "c14D" :: t :: xs ->
    show_search (search_list_desc (List.map z_of_string xs) (z_of_string t))
  | _ -> "BADCASE"

let () =
  try
    while true do
      let line = input_line stdin in
      let toks = split_ws line in
      if toks <> [] then print_endline (handle toks)
    done
  with End_of_file -> ()
