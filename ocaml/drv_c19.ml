(* drv_c19.ml -- model side of the C19 cases (aesx); same line format as harness/cmd/pure/c19.go *)
open Model
open Conv

let c19_hexval (c : char) : int =
  match c with
  | '0' .. '9' -> Char.code c - 48
  | 'a' .. 'f' -> Char.code c - 87
  | 'A' .. 'F' -> Char.code c - 55
  | _ -> failwith "bad hex"

let c19_bytes (s : string) : n list =
  if s = "-" then []
  else begin
    if String.length s mod 2 <> 0 then failwith "odd hex";
    List.init (String.length s / 2) (fun i ->
        n_of_int (16 * c19_hexval s.[2 * i] + c19_hexval s.[2 * i + 1]))
  end

let c19_show (l : n list) : string =
  if l = [] then "-"
  else String.concat "" (List.map (fun b -> Printf.sprintf "%02x" (int_of_string (string_of_n b))) l)

let c19_opts (s : string) : aesm_option list =
  if s = "-" then []
  else List.map (fun o ->
      if o = "cbc" then AesmWithCBC
      else if o = "cfb" then AesmWithCFB
      else if String.length o >= 3 && String.sub o 0 3 = "iv=" then
        (let v = String.sub o 3 (String.length o - 3) in
         AesmWithIV (c19_bytes (if v = "" then "-" else v)))
      else failwith "bad option") (String.split_on_char ',' s)

let c19_slice arr off len cap : aesm_slice =
  { asl_arr = c19_bytes arr; asl_off = nat_of_int (int_of_string off);
    asl_len = nat_of_int (int_of_string len); asl_cap = nat_of_int (int_of_string cap) }

let c19_arr (before : n list) (after : n list) : string =
  if before = after then "same" else c19_show after

let c19_enc (variant : aesm_variant) (toks : string list) : string =
  match toks with
  | [opts; key; arr; off; len; cap] ->
    let s = c19_slice arr off len cap in
    if not (aesm_slice_ok s) then "BADSLICE" else
    (match aesm_new_cipher (c19_bytes key) (c19_opts opts) with
     | Ok c ->
       (match aesm_api_encrypt variant c s with
        | (Ok ct, arr') ->
          let res = Printf.sprintf "new=ok enc=%s arr=%s" (c19_show ct) (c19_arr s.asl_arr arr') in
          let lay = List.map n_of_int [0xa5; 0xa5; 0xa5] @ ct @ List.map n_of_int [0x5a; 0x5a; 0x5a; 0x5a; 0x5a; 0x5a; 0x5a] in
          let n = List.length ct in
          let s2 = { asl_arr = lay; asl_off = nat_of_int 3; asl_len = nat_of_int n; asl_cap = nat_of_int (n + 4) } in
          (match aesm_api_decrypt c s2 with
           | (Ok p, lay') -> Printf.sprintf "%s dec=%s ctarr=%s" res (c19_show p) (if lay' = lay then "same" else "changed")
           | (_, lay') -> Printf.sprintf "%s dec=panic ctarr=%s" res (if lay' = lay then "same" else "changed"))
        | (_, arr') -> Printf.sprintf "new=ok enc=panic arr=%s" (c19_arr s.asl_arr arr'))
     | _ -> "new=panic")
  | _ -> "BADCASE"

let () =
  Registry.register "c19E" (c19_enc AesmFixed);
  (* canary: the model of the code before commit ca0d742 (must disagree on the witnesses) *)
  Registry.register "c19Eorig" (c19_enc AesmOrig);
  Registry.register "c19D" (fun toks -> match toks with
    | [opts; key; arr; off; len; cap] ->
      let s = c19_slice arr off len cap in
      if not (aesm_slice_ok s) then "BADSLICE" else
      (match aesm_new_cipher (c19_bytes key) (c19_opts opts) with
       | Ok c ->
         (match aesm_api_decrypt c s with
          | (Ok p, arr') -> Printf.sprintf "new=ok dec=%s arr=%s" (c19_show p) (c19_arr s.asl_arr arr')
          | (_, arr') -> Printf.sprintf "new=ok dec=panic arr=%s" (c19_arr s.asl_arr arr'))
       | _ -> "new=panic")
    | _ -> "BADCASE");
  Registry.register "c19C" (fun toks -> match toks with
    | opts :: key :: pts ->
      (match aesm_new_cipher (c19_bytes key) (c19_opts opts) with
       | Ok c ->
         let decok = ref "ok" in
         let seq = List.mapi (fun i p ->
             let pl = c19_bytes p in
             match aesm_api_encrypt AesmFixed c (aesm_whole pl) with
             | (Ok ct, _) ->
               (match aesm_api_decrypt c (aesm_whole ct) with
                | (Ok d, _) when d = pl -> ()
                | _ -> decok := Printf.sprintf "bad@%d" i);
               c19_show ct
             | _ -> "panic") pts in
         (* the model is a pure function: concurrent callers get the sequential answers *)
         Printf.sprintf "new=ok seq=%s dec=%s conc=ok" (String.concat "," seq) !decok
       | _ -> "new=panic")
    | _ -> "BADCASE")
