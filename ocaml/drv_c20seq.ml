(* drv_c20seq.ml -- model side of the C20 call-sequence cases (models/SampleSeq.v).
   c20Q <call> | <call> | ...     call = <seed> <k> <n> <pj> W <weights...> R <ranks...>
   The whole sequence is given to smp_run_calls; one result per call:
     r=[..] calls=c   |   PANIC calls=c   |   NOFUEL *)
open Model
open Conv

let rec split_bar (toks : string list) (cur : string list) (acc : string list list) : string list list =
  match toks with
  | [] -> List.rev (if cur = [] then acc else List.rev cur :: acc)
  | "|" :: rest -> split_bar rest [] (if cur = [] then acc else List.rev cur :: acc)
  | t :: rest -> split_bar rest (t :: cur) acc

let rec after_r_seq (toks : string list) : string list =
  match toks with
  | [] -> failwith "no R marker"
  | "R" :: rest -> rest
  | _ :: rest -> after_r_seq rest

let call_of_toks (toks : string list) : smp_call =
  match toks with
  | _seed :: k :: n :: pj :: rest ->
    let ranks = List.map z_of_string (after_r_seq rest) in
    let pj = int_of_string pj in
    { smc_k = z_of_string k; smc_n = z_of_string n; smc_keys = ranks;
      smc_pj = (if pj < 0 then None else Some (nat_of_int pj)) }
  | _ -> failwith "bad c20Q call"

let show_call_result (r : (z list) hp_res * nat) : string =
  match r with
  | (HpOk l, c) -> Printf.sprintf "r=%s calls=%d" (zlist_to_string l) (int_of_nat c)
  | (HpPanic, c) -> Printf.sprintf "PANIC calls=%d" (int_of_nat c)
  | (HpNoFuel, _) -> "NOFUEL"

let () =
  Registry.register "c20Q" (fun toks ->
    let calls = List.map call_of_toks (split_bar toks [] []) in
    String.concat " | " (List.map show_call_result (smp_run_calls calls)))
