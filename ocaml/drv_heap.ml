(* drv_heap.ml -- model side of the differential test of coq/lib/Heap.v against
   std.PriorityQueue ("heap ...") and container/heap.Init ("heapinit ...").
   Case format: see harness/cmd/pure/heap.go. *)
open Model
open Conv

let show_item ((p, id) : z * z) : string = string_of_z p ^ "." ^ string_of_z id

let show_arr (l : (z * z) list) : string =
  "[" ^ String.concat "," (List.map show_item l) ^ "]"

let parse_op (s : string) : (z * z) hp_op =
  match String.split_on_char ':' s with
  | ["P"; p; id] -> HpPush (z_of_string p, z_of_string id)
  | ["O"] -> HpPop
  | ["T"] -> HpTop
  | ["F"; i; p; id] -> HpFixAt (nat_of_int (int_of_string i), (z_of_string p, z_of_string id))
  | ["R"; i] -> HpRemoveAt (nat_of_int (int_of_string i))
  | _ -> failwith ("bad heap op " ^ s)

let returns_value (op : (z * z) hp_op) : bool =
  match op with HpPop | HpTop | HpRemoveAt _ -> true | _ -> false

let () =
  let run_ops = (fun toks ->
    let rec go l ops acc =
      match ops with
      | [] -> List.rev acc
      | s :: rest ->
        let op = parse_op s in
        (match hp_zapply l op with
         | HpOk (l', v) ->
           let vs = match v with
             | Some it -> show_item it
             | None -> if returns_value op then "nil" else "-" in
           go l' rest ((show_arr l' ^ ">" ^ vs) :: acc)
         | HpPanic -> List.rev ("PANIC" :: acc)
         | HpNoFuel -> List.rev ("NOFUEL" :: acc)) in
    String.concat ";" (go [] toks [])) in
  Registry.register "heap" run_ops;
  Registry.register "heapraw" run_ops;
  Registry.register "heapinit" (fun toks ->
    let items = List.map (fun t -> match String.split_on_char ':' t with
      | [p; id] -> (z_of_string p, z_of_string id)
      | _ -> failwith "bad item") toks in
    match hp_zinit items with
    | HpOk l -> show_arr l
    | HpPanic -> "PANIC"
    | HpNoFuel -> "NOFUEL")
