// Command ftants runs the faketime trace-validation vehicle for ants (DESIGN.md 4.3; build with -tags "verif faketime"): it reads
// one case per line from the cases file, calls the real lixianmin/got API and prints one
// canonical result line per case to the output file.
package main

import (
	"bufio"
	"fmt"
	"os"
	"strings"
)

type handler func(toks []string) string

var handlers = map[string]handler{}

func register(tag string, h handler) { handlers[tag] = h }

func main() {
	if len(os.Args) != 3 {
		fmt.Fprintln(os.Stderr, "usage: ftants <cases> <out>")
		os.Exit(2)
	}
	in, err := os.Open(os.Args[1])
	if err != nil {
		panic(err)
	}
	defer in.Close()
	out, err := os.Create(os.Args[2])
	if err != nil {
		panic(err)
	}
	w := bufio.NewWriterSize(out, 1<<20)
	sc := bufio.NewScanner(in)
	sc.Buffer(make([]byte, 1<<20), 1<<28)
	for sc.Scan() {
		toks := strings.Fields(sc.Text())
		if len(toks) == 0 {
			continue
		}
		h, ok := handlers[toks[0]]
		if !ok {
			fmt.Fprintln(w, "BADCASE")
			continue
		}
		fmt.Fprintln(w, safe(h, toks))
		w.Flush() // one line per finished case on disk: the driver sees which case a hung process was in
	}
	w.Flush()
	out.Close()
}

// safe turns a Go panic into the observable "PANIC".
func safe(h handler, toks []string) (res string) {
	defer func() {
		if r := recover(); r != nil {
			res = "PANIC " + strings.ReplaceAll(fmt.Sprint(r), "\n", " ")
		}
	}()
	return h(toks)
}
