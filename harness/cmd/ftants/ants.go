package main

// Timed-script executor for ants.Pool (properties C07, C08). Built with
// -tags "verif faketime": the clock is virtual, every stamp below is deterministic.
//
// case:  ants <N> [pc=<t>] <task> <task> ...
//        pc=<t>: the pool is built with WithContextBuilder(func() context.Context { return parent }) (one shared
//        cancellable parent for every dispatcher goroutine) and the script cancels parent at the virtual
//        instant t (t < 0: never cancelled by the script)
// task:  <send>,<T>,<R>,<discard>,<onerr>|<dur>:<honours>:<val>:<err>[:<cancels>]|...   (one behaviour per attempt;
//        the last one is reused if the handler is invoked more often); cancels=1: the handler cancels the
//        dispatchers' parent context right before it returns (implies a pool built with WithContextBuilder)
//        times in ns relative to the scenario start; val -1 = nil result; err 0 = nil error, k>0 = error "E<k>"
// reply: N=<n>;<event>;<event>;...   events in execution order (appended under one mutex):
//   S,k,t            Send called            SR,k,t           Send returned
//   HS,k,n,t,dl,run  n-th handler invocation of task k starts; dl = ctx deadline (-1: none); run = running handlers now
//   HE,k,n,t,v,e,c,run  it returns (v,e); c=1: it returned because ctx.Done() fired; run = running handlers now
//   OE,k,t,e         error callback          G,k,t,v,e       first Get2 returned
//   GG,k,t,v,e       a second Get2 at the end of the scenario
//   G1,k,t,v         Get1 (called from its own goroutine right after Send returned) returned v
//   ER,k,t,e         Err() called right after the first Get2 returned
//   HANG1,k          Get1 had not returned at the horizon
//   HANG,k           Get2 had not returned at the horizon
//   PC,t,k,n         parent context about to be cancelled (logged BEFORE cancel() is called, so every effect
//                    of the cancellation is logged after it); k = -1: by the script, else by the n-th handler invocation of task k
//   END,t,run,hs,he  horizon reached: running handlers, #starts, #ends

import (
	"context"
	"errors"
	"fmt"
	"runtime"
	"strconv"
	"strings"
	"sync"
	"time"

	"github.com/lixianmin/got/ants"
)

type behaviour struct {
	dur     time.Duration
	honours bool
	val     int
	err     int
	cancels bool
}

const defaultTimeout = 365 * 24 * time.Hour

type taskSpec struct {
	send    time.Duration
	timeout time.Duration
	retry   int
	discard bool
	onerr   bool
	behs    []behaviour
}

func atoi64(s string) int64 {
	v, err := strconv.ParseInt(s, 10, 64)
	if err != nil {
		panic("bad int " + s)
	}
	return v
}

func parseTask(tok string) taskSpec {
	parts := strings.Split(tok, "|")
	h := strings.Split(parts[0], ",")
	if len(h) != 5 {
		panic("bad task header " + parts[0])
	}
	ts := taskSpec{send: time.Duration(atoi64(h[0])), timeout: time.Duration(atoi64(h[1])), retry: int(atoi64(h[2])),
		discard: h[3] == "1", onerr: h[4] == "1"}
	for _, b := range parts[1:] {
		f := strings.Split(b, ":")
		if len(f) != 4 && len(f) != 5 {
			panic("bad behaviour " + b)
		}
		ts.behs = append(ts.behs, behaviour{time.Duration(atoi64(f[0])), f[1] == "1", int(atoi64(f[2])), int(atoi64(f[3])), len(f) == 5 && f[4] == "1"})
	}
	if len(ts.behs) == 0 {
		panic("task without behaviour")
	}
	return ts
}

// handler errors E1..E31, created once (handlers run concurrently)
var handlerErrs = func() []error {
	l := make([]error, 32)
	for i := 1; i < len(l); i++ {
		l[i] = fmt.Errorf("E%d", i)
	}
	return l
}()

// error codes >= 101: errors with an identity the pool itself uses, returned by a handler as its OWN ordinary error
//   101  the discard error a handler obtained from Get2 of a Send that another, busy pool rejected
//   102  context.DeadlineExceeded      103  context.Canceled      104  fmt.Errorf("...%w", <the discard error>)
func herr(k int) error {
	if k <= 0 {
		return nil
	}
	switch k {
	case 101:
		return discardFromBusyPool()
	case 102:
		return context.DeadlineExceeded
	case 103:
		return context.Canceled
	case 104:
		return fmt.Errorf("wrapped: %w", discardFromBusyPool())
	}
	return handlerErrs[k%len(handlerErrs)]
}

// busyPool: a process-wide pool of size 1 whose only inner worker runs a handler that never returns and whose task
// queue holds one more task: every further Send with discardOnBusy is rejected.
var busyPool ants.Pool

// ensureBusyPool must be called outside a scenario's measured span (it lets 1 ns of virtual time pass).
func ensureBusyPool() {
	if busyPool != nil {
		return
	}
	busyPool = ants.NewPool()
	forever := make(chan struct{})
	block := func(ctx context.Context) (any, error) { <-forever; return nil, nil }
	busyPool.Send(block, ants.WithDiscardOnBusy(false))
	time.Sleep(time.Nanosecond) // the dispatcher picks it up, the inner worker enters the handler
	busyPool.Send(block, ants.WithDiscardOnBusy(false))
}

func discardFromBusyPool() error {
	t := busyPool.Send(func(ctx context.Context) (any, error) { return nil, nil })
	_, e := t.Get2()
	if !ants.IsDiscardError(e) {
		panic("harness: the busy pool accepted a task")
	}
	return e
}

func needsBusyPool(behs []behaviour) bool {
	for _, b := range behs {
		if b.err == 101 || b.err == 104 {
			return true
		}
	}
	return false
}

func showErr(e error) string {
	switch {
	case e == nil:
		return "nil"
	case ants.IsDiscardError(e) && errors.Unwrap(e) != nil:
		return "E104" // a handler's wrapped discard error (code 104)
	case ants.IsDiscardError(e):
		return "DISC"
	case e == context.DeadlineExceeded:
		return "DE"
	case errors.Is(e, context.Canceled):
		return "CANCELED"
	}
	s := e.Error()
	if strings.HasPrefix(s, "E") {
		return s
	}
	return "?" + strings.ReplaceAll(strings.ReplaceAll(s, " ", "_"), ";", "_")
}

func showVal(v any) string {
	if v == nil {
		return "nil"
	}
	if i, ok := v.(int); ok {
		return strconv.Itoa(i)
	}
	return "?"
}

func runAnts(toks []string) string {
	n := int(atoi64(toks[1]))
	rest := toks[2:]
	withParent, pcAt := false, time.Duration(-1)
	if len(rest) > 0 && strings.HasPrefix(rest[0], "pc=") {
		withParent = true
		pcAt = time.Duration(atoi64(rest[0][3:]))
		rest = rest[1:]
	}
	specs := make([]taskSpec, 0, len(rest))
	for _, t := range rest {
		sp := parseTask(t)
		for _, b := range sp.behs {
			if b.cancels {
				withParent = true
			}
		}
		specs = append(specs, sp)
		if needsBusyPool(sp.behs) {
			ensureBusyPool()
		}
	}
	var mu sync.Mutex
	var sb strings.Builder
	fmt.Fprintf(&sb, "N=%d", n)
	base := time.Now()
	running, hs, he := 0, 0, 0
	logf := func(f func() string) {
		mu.Lock()
		s := f()
		sb.WriteByte(';')
		sb.WriteString(s)
		mu.Unlock()
	}
	now := func() int64 { return int64(time.Since(base)) }

	var pool ants.Pool
	var cancelParent context.CancelFunc = func() {}
	if withParent {
		var parent context.Context
		parent, cancelParent = context.WithCancel(context.Background())
		pool = ants.NewPool(ants.WithSize(n), ants.WithContextBuilder(func() context.Context { return parent }))
	} else {
		pool = ants.NewPool(ants.WithSize(n))
	}
	var horizon time.Duration
	if pcAt > horizon {
		horizon = pcAt
	}
	var sumDur time.Duration
	for _, sp := range specs {
		if sp.send > horizon {
			horizon = sp.send
		}
	}
	for _, sp := range specs {
		// a retry count beyond 64 means "retry until success": the scripted behaviours end in a success, so the
		// horizon only needs to cover them
		for a := 0; (a < sp.retry && a < 64) || a < len(sp.behs); a++ {
			b := sp.behs[len(sp.behs)-1]
			if a < len(sp.behs) {
				b = sp.behs[a]
			}
			d := b.dur
			if sp.timeout > d && sp.timeout != defaultTimeout { // no WithTimeout: the attempt lasts as long as its handler
				d = sp.timeout
			}
			sumDur += d + b.dur
		}
	}
	horizon += sumDur + time.Millisecond

	var wg sync.WaitGroup
	tasks := make([]ants.Task, len(specs))
	returned := make([]bool, len(specs))
	returned1 := make([]bool, len(specs))
	for k := range specs {
		k := k
		sp := specs[k]
		count := 0
		handler := func(ctx context.Context) (any, error) {
			var idx int
			logf(func() string {
				count++
				idx = count
				running++
				hs++
				dl := int64(-1)
				if t, ok := ctx.Deadline(); ok {
					dl = int64(t.Sub(base))
				}
				return fmt.Sprintf("HS,%d,%d,%d,%d,%d", k, idx, now(), dl, running)
			})
			b := sp.behs[len(sp.behs)-1]
			if idx-1 < len(sp.behs) {
				b = sp.behs[idx-1]
			}
			cancelled := 0
			var v any
			var e error
			if b.val >= 0 {
				v = b.val
			}
			e = herr(b.err)
			if b.honours {
				timer := time.NewTimer(b.dur)
				select {
				case <-timer.C:
				case <-ctx.Done():
					timer.Stop()
					cancelled = 1
					v, e = nil, ctx.Err()
				}
			} else {
				time.Sleep(b.dur)
			}
			if b.cancels {
				logf(func() string { return fmt.Sprintf("PC,%d,%d,%d", now(), k, idx) })
				cancelParent()
			}
			logf(func() string {
				running--
				he++
				return fmt.Sprintf("HE,%d,%d,%d,%s,%s,%d,%d", k, idx, now(), showVal(v), showErr(e), cancelled, running)
			})
			return v, e
		}
		wg.Add(1)
		go func(pool ants.Pool) {
			defer wg.Done()
			time.Sleep(sp.send - time.Since(base))
			// options equal to createTaskOptions' defaults are left out for some tasks, so that the defaults
			// themselves (timeout 365 days, retry 1, discardOnBusy true) are exercised: a task scripted with the
			// default timeout is always sent without WithTimeout; odd tasks also omit a default retry / discard
			var opts []ants.TaskOption
			if sp.timeout != defaultTimeout {
				opts = append(opts, ants.WithTimeout(sp.timeout))
			}
			if !(sp.retry == 1 && k%2 == 1) {
				opts = append(opts, ants.WithRetry(sp.retry))
			}
			if !(sp.discard && k%2 == 1) {
				opts = append(opts, ants.WithDiscardOnBusy(sp.discard))
			}
			if sp.onerr {
				opts = append(opts, ants.WithError(func(err error) {
					logf(func() string { return fmt.Sprintf("OE,%d,%d,%s", k, now(), showErr(err)) })
				}))
			}
			logf(func() string { return fmt.Sprintf("S,%d,%d", k, now()) })
			t := pool.Send(handler, opts...)
			logf(func() string { tasks[k] = t; return fmt.Sprintf("SR,%d,%d", k, now()) })
			// the sibling entry points of the Task interface: Get1() from its own goroutine, started before the
			// task completes, and Err() right after Get2() returned
			wg.Add(1)
			go func() {
				defer wg.Done()
				v1 := t.Get1()
				logf(func() string {
					returned1[k] = true
					return fmt.Sprintf("G1,%d,%d,%s", k, now(), showVal(v1))
				})
			}()
			v, e := t.Get2()
			logf(func() string {
				returned[k] = true
				return fmt.Sprintf("G,%d,%d,%s,%s", k, now(), showVal(v), showErr(e))
			})
			e2 := t.Err()
			logf(func() string { return fmt.Sprintf("ER,%d,%d,%s", k, now(), showErr(e2)) })
		}(pool)
	}
	if pcAt >= 0 {
		wg.Add(1)
		go func() {
			defer wg.Done()
			time.Sleep(pcAt - time.Since(base))
			logf(func() string { return fmt.Sprintf("PC,%d,-1,0", now()) })
			cancelParent()
		}()
	}
	allDone := make(chan struct{})
	go func() { wg.Wait(); close(allDone) }()
	select {
	case <-allDone:
	case <-time.After(horizon):
	}
	// let handlers of timed-out attempts and queued callbacks finish
	if rest := horizon - time.Since(base); rest > 0 {
		time.Sleep(rest)
	}
	for k := range specs {
		k := k
		mu.Lock()
		ok, ok1, t := returned[k], returned1[k], tasks[k]
		mu.Unlock()
		if t != nil && !ok1 {
			logf(func() string { return fmt.Sprintf("HANG1,%d", k) })
		}
		if !ok {
			logf(func() string { return fmt.Sprintf("HANG,%d", k) })
			continue
		}
		v, e := t.Get2()
		logf(func() string { return fmt.Sprintf("GG,%d,%d,%s,%s", k, now(), showVal(v), showErr(e)) })
	}
	logf(func() string { return fmt.Sprintf("END,%d,%d,%d,%d", now(), running, hs, he) })
	mu.Lock()
	res := sb.String()
	mu.Unlock()
	pool = nil
	runtime.GC()
	runtime.GC()
	return res
}

func init() { register("ants", runAnts) }
