package main

// Several pools in ONE process, literal option lists (properties C07, C08): the configuration of a pool / of a
// task must be a function of the options given to THAT NewPool / Send call only.
//
// case:  antsmp H=<horizon> [gc=<t>,<t>...] [drop=<p>:<t>,...] <npools> <pool>... <task>...
//        drop=: at instant t the harness drops its reference to pool p (no Send to p follows) and forces runtime.GC() twice
//        gc=: at each of these virtual instants runtime.GC() is forced twice (2 ns apart) while the script goes on
// pool:  <create>/<opts>          created by NewPool(opts...) at the virtual instant <create> (pools are listed in
//                                 creation order and created one after the other by one goroutine)
//        opts: "-" (none) or tokens joined by '+':  s<int> = WithSize(int) (any sign)
//                                                   b<id>  = WithContextBuilder(builder <id>)   bn = WithContextBuilder(nil)
//        builder <id> returns context.WithValue(context.Background(), bidKey{}, id): a handler sees which builder
//        made the context of the dispatcher that runs its task
// task:  <pool>,<send>,<opts>|<dur>:<honours>:<val>:<err>|...   sent to pool <pool> by Send(handler, opts...) at <send>
//        opts: "-" or tokens joined by '+':  t<int64> = WithTimeout(ns)  r<int> = WithRetry  d0/d1 = WithDiscardOnBusy
//                                            e = WithError(logging callback)  en = WithError(nil)
//        The option list is passed literally: nothing is added, dropped or reordered, values may be non-positive.
// reply: MP=<npools>;<event>;...   events as for "ants" (task numbers k are global, in script order) with
//   NP,p,t              NewPool of pool p returned
//   HS,k,n,t,dl,run,bid run = running handlers of THIS task's pool; bid = builder id carried by ctx (-1: none)
//   HE,k,n,t,v,e,c,run  run as above
//   END,t,run,hs,he,p   one per pool

import (
	"context"
	"fmt"
	"runtime"
	"strings"
	"sync"
	"time"

	"github.com/lixianmin/got/ants"
)

type bidKey struct{}

type mpPool struct {
	create time.Duration
	opts   []string
}

type mpTask struct {
	pool int
	send time.Duration
	opts []string
	behs []behaviour
}

func splitOpts(s string) []string {
	if s == "-" || s == "" {
		return nil
	}
	return strings.Split(s, "+")
}

func runAntsMP(toks []string) string {
	if len(toks) < 4 || !strings.HasPrefix(toks[1], "H=") {
		panic("bad antsmp")
	}
	horizon := time.Duration(atoi64(toks[1][2:]))
	toks = toks[2:]
	var gcAt []time.Duration
	if strings.HasPrefix(toks[0], "gc=") {
		for _, g := range strings.Split(toks[0][3:], ",") {
			gcAt = append(gcAt, time.Duration(atoi64(g)))
		}
		toks = toks[1:]
	}
	type dropSpec struct {
		pool int
		at   time.Duration
	}
	var drops []dropSpec
	if strings.HasPrefix(toks[0], "drop=") {
		for _, d := range strings.Split(toks[0][5:], ",") {
			f := strings.SplitN(d, ":", 2)
			drops = append(drops, dropSpec{int(atoi64(f[0])), time.Duration(atoi64(f[1]))})
		}
		toks = toks[1:]
	}
	np := int(atoi64(toks[0]))
	rest := toks[1:]
	if len(rest) < np {
		panic("too few pools")
	}
	pspecs := make([]mpPool, np)
	for i := 0; i < np; i++ {
		f := strings.SplitN(rest[i], "/", 2)
		if len(f) != 2 {
			panic("bad pool " + rest[i])
		}
		pspecs[i] = mpPool{time.Duration(atoi64(f[0])), splitOpts(f[1])}
	}
	var specs []mpTask
	for _, tok := range rest[np:] {
		parts := strings.Split(tok, "|")
		h := strings.Split(parts[0], ",")
		if len(h) != 3 {
			panic("bad task header " + parts[0])
		}
		ts := mpTask{pool: int(atoi64(h[0])), send: time.Duration(atoi64(h[1])), opts: splitOpts(h[2])}
		if ts.pool < 0 || ts.pool >= np {
			panic("bad pool index " + parts[0])
		}
		for _, b := range parts[1:] {
			f := strings.Split(b, ":")
			if len(f) != 4 {
				panic("bad behaviour " + b)
			}
			ts.behs = append(ts.behs, behaviour{time.Duration(atoi64(f[0])), f[1] == "1", int(atoi64(f[2])), int(atoi64(f[3])), false})
		}
		if len(ts.behs) == 0 {
			panic("task without behaviour")
		}
		specs = append(specs, ts)
		if needsBusyPool(ts.behs) {
			ensureBusyPool()
		}
	}

	var mu sync.Mutex
	var sb strings.Builder
	fmt.Fprintf(&sb, "MP=%d", np)
	base := time.Now()
	running := make([]int, np)
	hs := make([]int, np)
	he := make([]int, np)
	logf := func(f func() string) {
		mu.Lock()
		s := f()
		sb.WriteByte(';')
		sb.WriteString(s)
		mu.Unlock()
	}
	now := func() int64 { return int64(time.Since(base)) }

	pools := make([]ants.Pool, np)
	var wg sync.WaitGroup
	wg.Add(1)
	go func() {
		defer wg.Done()
		for p := range pspecs {
			p := p
			time.Sleep(pspecs[p].create - time.Since(base))
			var opts []ants.PoolOption
			for _, o := range pspecs[p].opts {
				switch {
				case o == "bn":
					opts = append(opts, ants.WithContextBuilder(nil))
				case o[0] == 'b':
					id := int(atoi64(o[1:]))
					opts = append(opts, ants.WithContextBuilder(func() context.Context {
						return context.WithValue(context.Background(), bidKey{}, id)
					}))
				case o[0] == 's':
					opts = append(opts, ants.WithSize(int(atoi64(o[1:]))))
				default:
					panic("bad pool option " + o)
				}
			}
			pl := ants.NewPool(opts...)
			logf(func() string { pools[p] = pl; return fmt.Sprintf("NP,%d,%d", p, now()) })
		}
	}()

	// forced garbage collections in the middle of the script: every pool is still referenced (pools[]) and used afterwards
	for _, g := range gcAt {
		g := g
		wg.Add(1)
		go func() {
			defer wg.Done()
			time.Sleep(g - time.Since(base))
			logf(func() string { return fmt.Sprintf("GC,%d", now()) })
			runtime.GC()
			time.Sleep(2 * time.Nanosecond) // the finalizer goroutine (if anything was finalizable) runs before the clock moves
			runtime.GC()
		}()
	}

	// "drop the pool, keep the Tasks": the harness forgets its only reference to pool p (no Send to p follows) while
	// tasks of p may still be queued or running, then forces two garbage collections: every accepted task must still
	// complete with its handler's result
	for _, d := range drops {
		d := d
		wg.Add(1)
		go func() {
			defer wg.Done()
			time.Sleep(d.at - time.Since(base))
			logf(func() string { pools[d.pool] = nil; return fmt.Sprintf("DROP,%d,%d", d.pool, now()) })
			runtime.GC()
			time.Sleep(2 * time.Nanosecond)
			runtime.GC()
		}()
	}

	tasks := make([]ants.Task, len(specs))
	returned := make([]bool, len(specs))
	returned1 := make([]bool, len(specs))
	for k := range specs {
		k := k
		sp := specs[k]
		count := 0
		handler := func(ctx context.Context) (any, error) {
			var idx int
			logf(func() string {
				count++
				idx = count
				running[sp.pool]++
				hs[sp.pool]++
				dl := int64(-1)
				if t, ok := ctx.Deadline(); ok {
					dl = int64(t.Sub(base))
				}
				bid := -1
				if v, ok := ctx.Value(bidKey{}).(int); ok {
					bid = v
				}
				return fmt.Sprintf("HS,%d,%d,%d,%d,%d,%d", k, idx, now(), dl, running[sp.pool], bid)
			})
			b := sp.behs[len(sp.behs)-1]
			if idx-1 < len(sp.behs) {
				b = sp.behs[idx-1]
			}
			cancelled := 0
			var v any
			var e error
			if b.val >= 0 {
				v = b.val
			}
			e = herr(b.err)
			if b.honours {
				timer := time.NewTimer(b.dur)
				select {
				case <-timer.C:
				case <-ctx.Done():
					timer.Stop()
					cancelled = 1
					v, e = nil, ctx.Err()
				}
			} else {
				time.Sleep(b.dur)
			}
			logf(func() string {
				running[sp.pool]--
				he[sp.pool]++
				return fmt.Sprintf("HE,%d,%d,%d,%s,%s,%d,%d", k, idx, now(), showVal(v), showErr(e), cancelled, running[sp.pool])
			})
			return v, e
		}
		wg.Add(1)
		go func() {
			defer wg.Done()
			time.Sleep(sp.send - time.Since(base))
			var opts []ants.TaskOption
			for _, o := range sp.opts {
				switch {
				case o == "e":
					opts = append(opts, ants.WithError(func(err error) {
						logf(func() string { return fmt.Sprintf("OE,%d,%d,%s", k, now(), showErr(err)) })
					}))
				case o == "en":
					opts = append(opts, ants.WithError(nil))
				case o == "d0" || o == "d1":
					opts = append(opts, ants.WithDiscardOnBusy(o == "d1"))
				case o[0] == 't':
					opts = append(opts, ants.WithTimeout(time.Duration(atoi64(o[1:]))))
				case o[0] == 'r':
					opts = append(opts, ants.WithRetry(int(atoi64(o[1:]))))
				default:
					panic("bad task option " + o)
				}
			}
			mu.Lock()
			pool := pools[sp.pool]
			mu.Unlock()
			if pool == nil {
				logf(func() string { return fmt.Sprintf("NOPOOL,%d,%d", k, now()) })
				return
			}
			logf(func() string { return fmt.Sprintf("S,%d,%d", k, now()) })
			t := pool.Send(handler, opts...)
			logf(func() string { tasks[k] = t; return fmt.Sprintf("SR,%d,%d", k, now()) })
			// the sibling entry points of the Task interface: Get1() from its own goroutine, started before the
			// task completes, and Err() right after Get2() returned
			wg.Add(1)
			go func() {
				defer wg.Done()
				v1 := t.Get1()
				logf(func() string {
					returned1[k] = true
					return fmt.Sprintf("G1,%d,%d,%s", k, now(), showVal(v1))
				})
			}()
			v, e := t.Get2()
			logf(func() string {
				returned[k] = true
				return fmt.Sprintf("G,%d,%d,%s,%s", k, now(), showVal(v), showErr(e))
			})
			e2 := t.Err()
			logf(func() string { return fmt.Sprintf("ER,%d,%d,%s", k, now(), showErr(e2)) })
		}()
	}
	allDone := make(chan struct{})
	go func() { wg.Wait(); close(allDone) }()
	select {
	case <-allDone:
	case <-time.After(horizon):
	}
	// let handlers of timed-out attempts and queued callbacks finish
	if rest := horizon - time.Since(base); rest > 0 {
		time.Sleep(rest)
	}
	for k := range specs {
		k := k
		mu.Lock()
		ok, ok1, t := returned[k], returned1[k], tasks[k]
		mu.Unlock()
		if t != nil && !ok1 {
			logf(func() string { return fmt.Sprintf("HANG1,%d", k) })
		}
		if !ok {
			logf(func() string { return fmt.Sprintf("HANG,%d", k) })
			continue
		}
		v, e := t.Get2()
		logf(func() string { return fmt.Sprintf("GG,%d,%d,%s,%s", k, now(), showVal(v), showErr(e)) })
	}
	for p := 0; p < np; p++ {
		p := p
		logf(func() string { return fmt.Sprintf("END,%d,%d,%d,%d,%d", now(), running[p], hs[p], he[p], p) })
	}
	mu.Lock()
	res := sb.String()
	for p := range pools {
		pools[p] = nil
	}
	mu.Unlock()
	runtime.GC()
	runtime.GC()
	return res
}

func init() { register("antsmp", runAntsMP) }
