// Command racestress exercises every goroutine-shared component of lixianmin/got from
// many goroutines at once. It is built with -race (real time: -race and faketime cannot
// be combined) and is the implementation-side oracle of C18: a race report is itself the
// failing schedule. Durations are short and chosen so that loads complete / attempts
// finish at the same moment as status checks and deadlines.
//
//	usage: racestress <component|all> <millis>
package main

import (
	"context"
	"errors"
	"fmt"
	"os"
	"strconv"
	"sync"
	"sync/atomic"
	"time"

	"github.com/lixianmin/got/ants"
	"github.com/lixianmin/got/cachex"
	"github.com/lixianmin/got/loom"
	"github.com/lixianmin/got/taskx"
)

func spawn(n int, until time.Time, f func(id int, iter int)) {
	var wg sync.WaitGroup
	for g := 0; g < n; g++ {
		wg.Add(1)
		go func(id int) {
			defer wg.Done()
			for i := 0; time.Now().Before(until); i++ {
				f(id, i)
			}
		}(g)
	}
	wg.Wait()
}

func stressQueue(until time.Time) {
	q := loom.NewQueue()
	spawn(8, until, func(id, i int) {
		if (id+i)%2 == 0 {
			q.Push(id*1000000 + i)
		} else if v := q.Pop(); v != nil {
			_ = v.(int)
		}
	})
}

func stressWheel(until time.Time) {
	w := loom.NewWheel(time.Millisecond, 8)
	defer w.Close()
	var fired int64
	spawn(6, until, func(id, i int) {
		d := time.Duration((id+i)%7) * time.Millisecond
		switch i % 3 {
		case 0:
			t := w.NewTimer(d)
			<-t.C
			t.Reset()
			<-t.C
		case 1:
			w.AfterFunc(d, func() { atomic.AddInt64(&fired, 1) })
			time.Sleep(200 * time.Microsecond)
		default:
			t := w.NewTimer(d)
			select {
			case <-t.C:
			case <-time.After(500 * time.Microsecond):
			}
		}
	})
}

func stressWaitClose(until time.Time) {
	for time.Now().Before(until) {
		var wc loom.WaitClose
		var cbs int64
		var wg sync.WaitGroup
		for g := 0; g < 6; g++ {
			wg.Add(1)
			go func(id int) {
				defer wg.Done()
				switch id {
				case 0, 1:
					wc.Close(func() error { atomic.AddInt64(&cbs, 1); return nil })
					if !wc.IsClosed() {
						panic("IsClosed false after Close returned")
					}
				case 2:
					<-wc.C()
				case 3:
					wc.WaitUtil(time.Millisecond)
				case 4:
					wc.IsClosed()
					c := wc.C()
					if c == nil {
						panic("C() returned nil")
					}
				default:
					wc.Close(nil)
				}
			}(g)
		}
		wg.Wait()
		if atomic.LoadInt64(&cbs) > 1 {
			panic("two callbacks")
		}
	}
}

func stressAtomics(until time.Time) {
	var flag loom.Flag
	var counter int64
	var m loom.Mutex
	var inside int32
	spawn(8, until, func(id, i int) {
		bit := int64(1) << uint((id*7+i)%64)
		flag.AddFlag(bit)
		flag.HasFlag(bit)
		flag.RemoveFlag(bit)
		loom.AddIf64(&counter, 1, func(old int64) bool { return old < 10 })
		loom.AddIf64(&counter, -1, func(old int64) bool { return old > 0 })
		// degenerate arguments the API tolerates: a zero delta ("just ask the predicate"), the empty mask
		loom.AddIf64(&counter, 0, func(old int64) bool { return old >= 0 })
		flag.AddFlag(0)
		flag.RemoveFlag(0)
		flag.HasFlag(0)
		m.IsLocked()
		if i%2 == 0 {
			if m.TryLock() {
				if atomic.AddInt32(&inside, 1) != 1 {
					panic("two holders")
				}
				atomic.AddInt32(&inside, -1)
				m.Unlock()
			}
		} else {
			m.Lock()
			if atomic.AddInt32(&inside, 1) != 1 {
				panic("two holders")
			}
			m.Count()
			atomic.AddInt32(&inside, -1)
			m.Unlock()
		}
		if v := atomic.LoadInt64(&counter); v > 10 || v < 0 {
			panic("AddIf64 invariant broken: " + strconv.FormatInt(v, 10))
		}
	})
}

func stressCache(until time.Time) {
	cache := cachex.NewCache(cachex.WithExpire(2*time.Millisecond, time.Millisecond), cachex.WithParallel(3), cachex.WithJobChanSize(4))
	var n int64
	loader := func(key any) (any, error) {
		k := atomic.AddInt64(&n, 1)
		time.Sleep(time.Duration(k%4) * 500 * time.Microsecond)
		if k%5 == 0 {
			return nil, errors.New("load failed")
		}
		return k, nil
	}
	spawn(8, until, func(id, i int) {
		key := (id + i) % 4
		switch i % 4 {
		case 0, 1:
			f := cache.Load(key, loader)
			f.Get2()
		case 2:
			cache.Get2(key)
			cache.Get1(key)
		default:
			if i%16 == 3 {
				cache.Set(key, i, nil)
			} else {
				f := cache.Load(key, loader)
				f.Get1()
			}
		}
		if i%8 == 0 {
			time.Sleep(300 * time.Microsecond)
		}
	})
}

func stressAnts(until time.Time) {
	pool := ants.NewPool(ants.WithSize(4))
	T := 2 * time.Millisecond
	spawn(6, until, func(id, i int) {
		d := T + time.Duration((i%5)-2)*20*time.Microsecond // around the deadline
		honour := i%2 == 0
		task := pool.Send(func(ctx context.Context) (any, error) {
			if honour {
				select {
				case <-time.After(d):
				case <-ctx.Done():
					return nil, ctx.Err()
				}
			} else {
				time.Sleep(d)
			}
			if i%7 == 0 {
				return nil, errors.New("handler failed")
			}
			return i, nil
		}, ants.WithTimeout(T), ants.WithRetry(1+i%2), ants.WithError(func(err error) {}))
		task.Get2()
		task.Get1()
	})
}

func stressTaskx(until time.Time) {
	closeChan := make(chan struct{})
	q := taskx.NewQueue(taskx.WithSize(4), taskx.WithCloseChan(closeChan), taskx.WithErrorLogger(func(string, ...any) {}))
	done := make(chan struct{})
	go func() {
		for {
			select {
			case t := <-q.C:
				t.Do(nil)
			case <-done:
				return
			}
		}
	}()
	mid := time.Now().Add(time.Until(until) * 2 / 3)
	spawn(6, mid, func(id, i int) {
		t := q.SendCallback(func(args any) (any, error) { return id*1000 + i, nil })
		v, err := t.Get2()
		if err != nil || v.(int) != id*1000+i {
			panic(fmt.Sprint("taskx Get2 returned ", v, err))
		}
		t.Get1()
	})
	close(done)
	stressTaskxFull(until)
}

// full queues with the library's DEFAULT options (no size / close-channel / logger option, and
// options given as nil / zero, which the library ignores): several unrelated queues whose senders
// all find the buffer full, the close channel already closed so that sends return. The default
// logger writes to os.Stderr: point that variable at the null device meanwhile (the race
// detector writes to fd 2 itself, so its reports are unaffected).
func stressTaskxFull(until time.Time) {
	if null, err := os.OpenFile(os.DevNull, os.O_WRONLY, 0); err == nil {
		old := os.Stderr
		os.Stderr = null
		defer func() { os.Stderr = old; null.Close() }()
	}
	var queues []*taskx.Queue
	for k := 0; k < 3; k++ {
		closeChan := make(chan struct{})
		var q *taskx.Queue
		switch k {
		case 0:
			q = taskx.NewQueue(taskx.WithSize(1), taskx.WithCloseChan(closeChan))
		case 1:
			q = taskx.NewQueue(taskx.WithSize(2), taskx.WithCloseChan(closeChan), taskx.WithErrorLogger(nil))
		default:
			q = taskx.NewQueue(taskx.WithCloseChan(closeChan), taskx.WithSize(0))
		}
		for len(q.C) < cap(q.C) {
			q.SendCallback(func(any) (any, error) { return nil, nil })
		}
		close(closeChan)
		queues = append(queues, q)
	}
	spawn(6, until, func(id, i int) {
		q := queues[(id+i)%len(queues)]
		q.SendCallback(func(any) (any, error) { return id, nil })
	})
}

func main() {
	which := "all"
	ms := 300
	if len(os.Args) > 1 {
		which = os.Args[1]
	}
	if len(os.Args) > 2 {
		ms, _ = strconv.Atoi(os.Args[2])
	}
	comps := []struct {
		name string
		f    func(time.Time)
	}{
		{"queue", stressQueue}, {"wheel", stressWheel}, {"waitclose", stressWaitClose}, {"atomics", stressAtomics},
		{"cache", stressCache}, {"ants", stressAnts}, {"taskx", stressTaskx},
	}
	for _, c := range comps {
		if which == "all" || which == c.name {
			c.f(time.Now().Add(time.Duration(ms) * time.Millisecond))
			fmt.Println("done", c.name)
		}
	}
}
