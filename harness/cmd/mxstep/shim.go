package main

import (
	"fmt"
	"sync/atomic"
	"unsafe"

	"github.com/lixianmin/got/loom"
	"verif/harness/internal/coop"
)

// Shims called by the generated copy of sync.Mutex (mutex_gen.go, see vlib/mxgen.py). Every shim that
// stands for an access of m.state or a semaphore call yields FIRST (the thread parks before the
// access, the granularity of MutexWord.v's mx_step) and then performs the real atomic operation on the
// address it was given -- which is the state word of the embedded sync.Mutex of a real loom.Mutex.

// yield sites of the copy: 100 + index in pcNames (the same list as vlib/mxgen.py PCS)
const siteBase = 100

var pcNames = []string{"LFast", "LLoad", "LSpin", "LCas", "LSleep", "LWoke", "LHand", "U1", "USlow", "ULoad", "URel", "URace"}

const (
	vxSiteLFast = siteBase + iota
	vxSiteLLoad
	vxSiteLSpin
	vxSiteLCas
	vxSiteLSleep
	vxSiteLWoke
	vxSiteLHand
	vxSiteU1
	vxSiteUSlow
	vxSiteULoad
	vxSiteURel
	vxSiteURace
)

func pcName(site int) string {
	switch {
	case site == 0:
		return "Idle"
	case site == loom.VerifSiteTryLockCas1:
		return "T1"
	case site == loom.VerifSiteTryLockLoad:
		return "T2"
	case site == loom.VerifSiteTryLockCas2:
		return "T3"
	case site >= siteBase && site < siteBase+len(pcNames):
		return pcNames[site-siteBase]
	}
	return fmt.Sprintf("site%d", site)
}

// mxLocal is the harness-side state of one logical thread.
type mxLocal struct {
	holds  bool   // between a successful Lock/TryLock return and the Unlock call
	spin   int    // runtime_canSpin answers true this many more times in the current Lock call
	starve int    // the first <starve> wake-ups of the current Lock call find the 1 ms threshold not exceeded
	wakes  int    // wake-ups (tokens taken) in the current Lock call
	acc    string // the access performed in the current step, rendered
	left   int    // operations not yet returned
	dead   bool   // an operation panicked (throw / fatal)
}

// mxCase is one scenario: one real loom.Mutex, the copy's view of its embedded sync.Mutex, the token
// counter that stands for the runtime semaphore m.sema.
type mxCase struct {
	s      *coop.Sched
	mu     *loom.Mutex
	vm     *vxMutex
	tokens int
	msgs   []string // panic messages
}

var cur *mxCase

func th() *mxLocal {
	t := cur.s.Cur()
	if t == nil {
		panic("harness: shim called outside a scheduled step")
	}
	return t.Local.(*mxLocal)
}

func b2i(b bool) int {
	if b {
		return 1
	}
	return 0
}

func vxCAS(site int, addr *int32, old, new int32) bool {
	cur.s.Yield(site)
	ok := atomic.CompareAndSwapInt32(addr, old, new)
	th().acc = fmt.Sprintf("cas:%d:%d:%d", old, new, b2i(ok))
	return ok
}

func vxAdd(site int, addr *int32, delta int32) int32 {
	cur.s.Yield(site)
	r := atomic.AddInt32(addr, delta)
	th().acc = fmt.Sprintf("add:%d", delta)
	return r
}

func vxLoad(site int, addr *int32) int32 {
	cur.s.Yield(site)
	r := atomic.LoadInt32(addr)
	th().acc = "ld"
	return r
}

func vxLoadA(site int, addr *int32) int32 { return vxLoad(site, addr) }

// runtime_SemacquireMutex: the thread parks before the call; the scheduler's Blocked predicate keeps
// it disabled while there is no token (queue order / direct hand-off of the runtime: modelled).
func vxSemacquire(site int, addr *uint32, lifo bool, skipframes int) {
	if addr != &cur.vm.sema {
		panic("harness: semaphore of another mutex")
	}
	cur.s.Yield(site)
	if cur.tokens <= 0 {
		panic("harness: thread resumed in SemacquireMutex without a token")
	}
	cur.tokens--
	l := th()
	l.wakes++
	l.acc = "acq"
}

func vxSemrelease(site int, addr *uint32, handoff bool, skipframes int) {
	if addr != &cur.vm.sema {
		panic("harness: semaphore of another mutex")
	}
	cur.s.Yield(site)
	cur.tokens++
	th().acc = fmt.Sprintf("rel:%d", b2i(handoff))
}

// runtime_canSpin: true exactly <spin> more times per Lock call (oracle of XLock spin _)
func vxCanSpin(iter int) bool {
	l := th()
	if l.spin > 0 {
		l.spin--
		return true
	}
	return false
}

func vxDoSpin() {}

// runtime_nanotime: before the first wake-up of a Lock call it returns a fixed non-zero instant
// (waitStartTime); after the k-th wake-up it returns an instant 10 ns later if k <= starve and 2 ms
// later otherwise, so "waited > 1 ms" is found from the (starve+1)-th wake-up on (oracle of XLock _ starve)
func vxNanotime() int64 {
	l := th()
	const t0 = 1_000_000_000
	if l.wakes == 0 {
		return t0
	}
	if l.wakes > l.starve {
		return t0 + 2_000_000
	}
	return t0 + 10
}

func vxThrow(s string) { panic("throw: " + s) }
func vxFatal(s string) { panic("fatal: " + s) }

type vxRaceT struct{ Enabled bool }

var vxRace = vxRaceT{Enabled: false}

func (vxRaceT) Acquire(unsafe.Pointer)      {}
func (vxRaceT) Release(unsafe.Pointer)      {}
func (vxRaceT) ReleaseMerge(unsafe.Pointer) {}
func (vxRaceT) Disable()                    {}
func (vxRaceT) Enable()                     {}

// canary only (op B): loom's TryLock with the refusal test weakened to the locked bit -- the shape of
// seeded/C17-trylock-ignores-starving-woken -- on the same yield sites. Never used by a real stream.
func badTryLock(m *loom.Mutex) bool {
	w := m.VerifStateWord()
	cur.s.Yield(loom.VerifSiteTryLockCas1)
	if atomic.CompareAndSwapInt32(w, 0, 1) {
		return true
	}
	cur.s.Yield(loom.VerifSiteTryLockLoad)
	old := atomic.LoadInt32(w)
	if old&1 != 0 {
		return false
	}
	cur.s.Yield(loom.VerifSiteTryLockCas2)
	return atomic.CompareAndSwapInt32(w, old, old|1)
}
