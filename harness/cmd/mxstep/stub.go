//go:build !mxgen

package main

// Placeholder so that the package compiles without the generated copy of sync.Mutex (plain `go build`,
// e.g. the cache warm-up of ./check setup). The check always builds with -tags "verif mxgen" and
// -overlay supplying mutex_gen.go (vlib/c17mx.py), and refuses a binary that reports generated=false.

const vxGenerated = false

type vxMutex struct {
	state int32
	sema  uint32
}

func (m *vxMutex) Lock()   { panic("mxstep was built without the generated copy of sync.Mutex") }
func (m *vxMutex) Unlock() { panic("mxstep was built without the generated copy of sync.Mutex") }
