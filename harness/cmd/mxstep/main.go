// Command mxstep steps a generated copy of the toolchain's sync.Mutex (Lock/lockSlow/Unlock/unlockSlow,
// see vlib/mxgen.py; the copy is supplied at build time through go build -overlay as mutex_gen.go and is
// never committed) together with the real loom.Mutex.TryLock on ONE state word under the cooperative
// scheduler (C17, stream mutex-stepped). Line protocol of cmd/coop: it reads
// one case per line from the cases file, calls the real lixianmin/got API and prints one
// canonical result line per case to the output file.
package main

import (
	"bufio"
	"fmt"
	"os"
	"strings"
	"time"
)

type handler func(toks []string) string

var handlers = map[string]handler{}

func register(tag string, h handler) { handlers[tag] = h }

func main() {
	if len(os.Args) != 3 {
		fmt.Fprintln(os.Stderr, "usage: coop <cases> <out>")
		os.Exit(2)
	}
	in, err := os.Open(os.Args[1])
	if err != nil {
		panic(err)
	}
	defer in.Close()
	out, err := os.Create(os.Args[2])
	if err != nil {
		panic(err)
	}
	w := bufio.NewWriterSize(out, 1<<20)
	sc := bufio.NewScanner(in)
	sc.Buffer(make([]byte, 1<<20), 1<<28)
	for sc.Scan() {
		toks := strings.Fields(sc.Text())
		if len(toks) == 0 {
			continue
		}
		h, ok := handlers[toks[0]]
		if !ok {
			fmt.Fprintln(w, "BADCASE")
			continue
		}
		fmt.Fprintln(w, guarded(h, toks))
	}
	w.Flush()
	out.Close()
}

// guarded runs one case under a watchdog: a case that does not finish within caseTimeout
// (a managed goroutine blocked outside the scheduler's control, a livelock) is reported as
// "HANG" and abandoned (its goroutines leak); after maxHangs such cases the rest of the
// file is answered "SKIPPED-AFTER-HANGS" so that a broken tree cannot stall the check.
const caseTimeout = 20 * time.Second
const maxHangs = 3

var hangs int

func guarded(h handler, toks []string) string {
	if hangs >= maxHangs {
		return "SKIPPED-AFTER-HANGS"
	}
	done := make(chan string, 1)
	go func() { done <- safe(h, toks) }()
	select {
	case r := <-done:
		return r
	case <-time.After(caseTimeout):
		hangs++
		return "HANG case did not finish within " + caseTimeout.String()
	}
}

// safe turns a Go panic into the observable "PANIC".
func safe(h handler, toks []string) (res string) {
	defer func() {
		if r := recover(); r != nil {
			res = "PANIC " + strings.ReplaceAll(fmt.Sprint(r), "\n", " ")
		}
	}()
	return h(toks)
}
