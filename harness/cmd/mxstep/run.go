package main

import (
	"fmt"
	"reflect"
	"strconv"
	"strings"
	"sync"
	"sync/atomic"
	"unsafe"

	"github.com/lixianmin/got/loom"
	"verif/harness/internal/coop"
)

// c17x progs=L<spin>:<starve>.U;T.U;... sched=0,0,1,...
//   threads on ONE loom.Mutex: L = Lock of the generated copy of the toolchain's sync.Mutex (operating
//   on the state word / semaphore word of the embedded sync.Mutex), U = its Unlock (skipped, "skip",
//   when the thread does not hold the mutex), T = the real loom.Mutex.TryLock, B = canary TryLock.
//   Output: steps=<step>;<step>;... fin=<step>;... [STUCK]
//   step = <tid>,<what>,<state word after the step>,<semaphore tokens after the step>
//   what = done | blocked | skip | inv><pc> | <pc before>:<access>><pc after | ret:<value> | panic>
// c17xinfo  layout of sync.Mutex as seen by the copy
//
// layoutCheck: the copy's struct{state int32; sema uint32} must coincide with the embedded sync.Mutex.
func layoutCheck() string {
	var fields []string
	ok := true
	var walk func(t reflect.Type, base uintptr)
	walk = func(t reflect.Type, base uintptr) {
		for i := 0; i < t.NumField(); i++ {
			f := t.Field(i)
			if f.Type.Kind() == reflect.Struct && f.Type.NumField() > 0 {
				walk(f.Type, base+f.Offset)
			} else if f.Type.Size() > 0 {
				fields = append(fields, fmt.Sprintf("%s@%d:%s", f.Name, base+f.Offset, f.Type.Kind()))
			}
		}
	}
	walk(reflect.TypeOf(sync.Mutex{}), 0)
	got := strings.Join(fields, ",")
	if got != "state@0:int32,sema@4:uint32" || unsafe.Sizeof(sync.Mutex{}) != unsafe.Sizeof(vxMutex{}) ||
		unsafe.Offsetof(vxMutex{}.state) != 0 || unsafe.Offsetof(vxMutex{}.sema) != 4 {
		ok = false
	}
	// live: the runtime's own Lock/Unlock move the word the copy looks at
	mu := &loom.Mutex{}
	vm := (*vxMutex)(unsafe.Pointer(&mu.Mutex))
	live := atomic.LoadInt32(&vm.state) == 0
	mu.Lock()
	live = live && atomic.LoadInt32(&vm.state) == 1 && &vm.state == mu.VerifStateWord()
	mu.Unlock()
	live = live && atomic.LoadInt32(&vm.state) == 0
	if !live {
		ok = false
	}
	return fmt.Sprintf("layout=%v fields=%s size=%d live=%v generated=%v", ok, got, unsafe.Sizeof(sync.Mutex{}), live, vxGenerated)
}

func newCase(spec string) *mxCase {
	c := &mxCase{mu: &loom.Mutex{}}
	c.vm = (*vxMutex)(unsafe.Pointer(&c.mu.Mutex))
	var progs [][]coop.Op
	var locals []*mxLocal
	for _, p := range strings.Split(spec, ";") {
		l := &mxLocal{}
		locals = append(locals, l)
		var ops []coop.Op
		for _, o := range splitNonEmpty(p, ".") {
			switch o[0] {
			case 'L':
				a := strings.Split(o[1:], ":")
				sp, st := atoi(a[0]), atoi(a[1])
				ops = append(ops, func() string {
					l.spin, l.starve, l.wakes = sp, st, 0
					c.vm.Lock()
					l.holds = true
					return "lock"
				})
			case 'T', 'B':
				bad := o[0] == 'B'
				ops = append(ops, func() string {
					var ok bool
					if bad {
						ok = badTryLock(c.mu)
					} else {
						ok = c.mu.TryLock()
					}
					if ok {
						l.holds = true
					}
					return "try=" + strconv.FormatBool(ok)
				})
			case 'U':
				ops = append(ops, func() string {
					if !l.holds {
						return "skip"
					}
					l.holds = false
					c.vm.Unlock()
					return "unlock"
				})
			default:
				panic("bad op " + o)
			}
		}
		progs = append(progs, ops)
	}
	c.s = coop.New(progs)
	for i, t := range c.s.Threads {
		locals[i].left = len(progs[i])
		t.Local = locals[i]
	}
	c.s.Blocked = func(t *coop.Thread) bool { return t.AtSite == vxSiteLSleep && c.tokens == 0 }
	return c
}

func (c *mxCase) step(tid int) string {
	var what string
	if tid < 0 || tid >= len(c.s.Threads) {
		what = "done"
	} else {
		t := c.s.Threads[tid]
		l := t.Local.(*mxLocal)
		before := pcName(t.AtSite)
		l.acc = ""
		ev := c.s.Step(tid)
		switch ev.Kind {
		case coop.KDone:
			what = "done"
		case coop.KBlocked:
			what = "blocked"
		case coop.KYield:
			if before == "Idle" {
				what = "inv>" + pcName(ev.Site)
			} else {
				what = before + ":" + l.acc + ">" + pcName(ev.Site)
			}
		case coop.KRet:
			l.left--
			if ev.Val == "skip" {
				what = "skip"
			} else {
				what = before + ":" + l.acc + ">ret:" + ev.Val
			}
		default:
			l.dead = true
			c.msgs = append(c.msgs, strings.ReplaceAll(ev.Val, " ", "_"))
			what = before + ":" + l.acc + ">panic"
		}
	}
	return fmt.Sprintf("%d,%s,%d,%d", tid, what, atomic.LoadInt32(&c.vm.state), c.tokens)
}

func init() {
	register("c17xinfo", func(toks []string) string { return layoutCheck() })
	register("c17x", func(toks []string) string {
		m := kv(toks[1:])
		c := newCase(m["progs"])
		cur = c
		loom.VerifYield = c.s.Yield
		defer func() { loom.VerifYield = nil; cur = nil }()
		var sb strings.Builder
		sb.WriteString("steps=")
		for i, tid := range intList(m["sched"]) {
			if i > 0 {
				sb.WriteByte(';')
			}
			sb.WriteString(c.step(tid))
		}
		sb.WriteString(" fin=")
		first := true
		stuck := true
		for n := 0; n < 4096; n++ {
			progressed := false
			for i := range c.s.Threads {
				if c.s.Enabled(i) {
					if !first {
						sb.WriteByte(';')
					}
					first = false
					sb.WriteString(c.step(i))
					progressed = true
				}
			}
			if !progressed {
				stuck = false
				for i := range c.s.Threads {
					if l := c.s.Threads[i].Local.(*mxLocal); !l.dead && l.left > 0 {
						stuck = true
					}
				}
				break
			}
		}
		if stuck {
			sb.WriteString(" STUCK")
		}
		if len(c.msgs) > 0 {
			sb.WriteString(" msg=" + strings.Join(c.msgs, "|"))
		}
		return sb.String()
	})
}
