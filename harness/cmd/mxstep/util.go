package main

import (
	"strconv"
	"strings"
)

// kv parses "k=v" tokens into a map (value may be empty).
func kv(toks []string) map[string]string {
	m := map[string]string{}
	for _, t := range toks {
		if i := strings.IndexByte(t, '='); i >= 0 {
			m[t[:i]] = t[i+1:]
		}
	}
	return m
}

func atoi(s string) int {
	v, err := strconv.ParseInt(s, 10, 64)
	if err != nil {
		panic("bad int " + s)
	}
	return int(v)
}

func splitNonEmpty(s, sep string) []string {
	if s == "" {
		return nil
	}
	return strings.Split(s, sep)
}

func intList(s string) []int {
	var r []int
	for _, t := range splitNonEmpty(s, ",") {
		r = append(r, atoi(t))
	}
	return r
}
