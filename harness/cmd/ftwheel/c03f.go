package main

import (
	"fmt"
	"strconv"
	"strings"
	"sync"
	"time"

	"github.com/lixianmin/got/loom"
)

// c03f step=<ns> n=<buckets> reqs=<r>:<kind>:<d>[:<d2>];...
//
// The wheel runs with its REAL goLoop and time.Ticker on the virtual clock (build tags
// "verif faketime"). Request j is issued at virtual instant t0+r (t0 = NewWheel); kind T =
// NewTimer(d) then wait on C; A = AfterFunc(d, cb); with <d2> the timer is Reset(d2) right
// after it fired and waited for again; N = AfterFunc(d, cb) whose callback requests NewTimer(d2) on
// the same wheel and waits for it. Output, per request: the virtual instant(s) at which
// the timer became ready / the callback ran, relative to t0, or "panic".
// after a hang the stuck wheel's ticker keeps producing clock jumps at its own (possibly tiny) step,
// which would make every later case of this process crawl: they are skipped and re-run by the check in
// a fresh process
var c03fHung bool

func init() {
	register("c03f", func(toks []string) string {
		if c03fHung {
			return "SKIPPED-AFTER-HANG"
		}
		m := map[string]string{}
		for _, t := range toks[1:] {
			if i := strings.IndexByte(t, '='); i >= 0 {
				m[t[:i]] = t[i+1:]
			}
		}
		atoi := func(s string) int64 {
			v, err := strconv.ParseInt(s, 10, 64)
			if err != nil {
				panic("bad int " + s)
			}
			return v
		}
		step := time.Duration(atoi(m["step"]))
		n := int(atoi(m["n"]))
		t0 := time.Now()
		w := loom.NewWheel(step, n)
		reqs := strings.Split(m["reqs"], ";")
		out := make([]string, len(reqs))
		var wg sync.WaitGroup
		var horizon time.Duration
		for j, rq := range reqs {
			f := strings.Split(rq, ":")
			r := time.Duration(atoi(f[0]))
			kind := f[1]
			d := time.Duration(atoi(f[2]))
			d2 := time.Duration(-1)
			if len(f) > 3 {
				d2 = time.Duration(atoi(f[3]))
			}
			if h := r + 3*step*time.Duration(n+2); h > horizon {
				horizon = h
			}
			wg.Add(1)
			go func(j int) {
				defer wg.Done()
				defer func() {
					if x := recover(); x != nil {
						out[j] = "panic"
					}
				}()
				time.Sleep(r)
				switch kind {
				case "T":
					t := w.NewTimer(d)
					<-t.C
					out[j] = strconv.FormatInt(int64(time.Since(t0)), 10)
					if d2 >= 0 {
						t.Reset(d2)
						<-t.C
						out[j] += "," + strconv.FormatInt(int64(time.Since(t0)), 10)
					}
				case "A":
					done := make(chan struct{})
					w.AfterFunc(d, func() {
						out[j] = strconv.FormatInt(int64(time.Since(t0)), 10)
						close(done)
					})
					<-done
				case "N":
					// re-entrancy: the AfterFunc callback itself requests a timer of the SAME wheel and
					// waits for it (the callback runs on a goroutine of its own, so the wheel keeps ticking)
					done := make(chan struct{})
					w.AfterFunc(d, func() {
						defer close(done)
						defer func() {
							if x := recover(); x != nil {
								out[j] = "panic"
							}
						}()
						out[j] = strconv.FormatInt(int64(time.Since(t0)), 10)
						t := w.NewTimer(d2)
						<-t.C
						out[j] += "," + strconv.FormatInt(int64(time.Since(t0)), 10)
					})
					<-done
				default:
					panic("bad kind")
				}
			}(j)
		}
		fin := make(chan struct{})
		go func() { wg.Wait(); close(fin) }()
		select {
		case <-fin:
		case <-time.After(2*horizon + 100*step): // all fire instants lie within r + 2 revolutions; a short virtual watchdog keeps a stopped wheel from being ticked through an hour of tiny steps
			c03fHung = true
			w.Close()
			return "HANG " + fmt.Sprint(out)
		}
		w.Close()
		return "fires=" + strings.Join(out, ";")
	})
}
