package main

import (
	"sort"
	"strings"
	"sync"
	"time"

	"github.com/lixianmin/got/taskx"
)

// c10 caps=<cap><e|s>,... end=<off> S:<off>:<delay>:<q> ... K:<q>:<off> ... C:<q>:<off> ...
//
// Runs against the REAL global delayed queue of taskx (1 s ticker). All offsets are virtual ns
// relative to the case base B = a tick instant (a whole virtual second). The i-th S token is
// request id i; S tokens with the same offset are issued by ONE goroutine in token order.
// Queue mode e = eager consumer (a goroutine looping on Queue.C), s = scripted consumer (one
// non-blocking receive attempt per K token). Log: A:<q>:<id>:<t> arrival of request id on
// Queue.C of q at virtual offset t (per queue in channel order); K:<q>:<off>:<id|-1>.
func init() { register("c10", runC10) }

func runC10(toks []string) string {
	type send struct {
		off, d int64
		q, id  int
	}
	type qact struct {
		off   int64
		q     int
		close bool
	}
	var caps []int
	var modes []byte
	var end int64
	var sends []send
	var acts []qact
	for _, t := range toks[1:] {
		switch {
		case strings.HasPrefix(t, "caps="):
			for _, c := range strings.Split(t[5:], ",") {
				caps = append(caps, int(atoi(c[:len(c)-1])))
				modes = append(modes, c[len(c)-1])
			}
		case strings.HasPrefix(t, "end="):
			end = atoi(t[4:])
		case strings.HasPrefix(t, "S:"):
			f := strings.Split(t, ":")
			sends = append(sends, send{atoi(f[1]), atoi(f[2]), int(atoi(f[3])), len(sends)})
		case strings.HasPrefix(t, "K:"):
			f := strings.Split(t, ":")
			acts = append(acts, qact{atoi(f[2]), int(atoi(f[1])), false})
		case strings.HasPrefix(t, "C:"):
			f := strings.Split(t, ":")
			acts = append(acts, qact{atoi(f[2]), int(atoi(f[1])), true})
		default:
			panic("c10: bad token " + t)
		}
	}
	base := nextTick()
	lg := &tlog{base: base}
	sleepUntil(base, 0)

	stop := make(chan struct{})
	var wg sync.WaitGroup
	queues := make([]*taskx.Queue, len(caps))
	closers := make([]chan struct{}, len(caps))
	closed := make([]bool, len(caps))
	var cmu sync.Mutex
	closeQ := func(q int) {
		cmu.Lock()
		if !closed[q] {
			closed[q] = true
			close(closers[q])
		}
		cmu.Unlock()
	}
	for q := range caps {
		closers[q] = make(chan struct{})
		queues[q] = taskx.NewQueue(taskx.WithSize(caps[q]), taskx.WithCloseChan(closers[q]),
			taskx.WithErrorLogger(func(string, ...any) {}))
		if modes[q] == 'e' {
			wg.Add(1)
			go func(q int) {
				defer wg.Done()
				for {
					select {
					case t := <-queues[q].C:
						_ = t.Do(q)
					case <-stop:
						return
					}
				}
			}(q)
		}
	}
	mkHandler := func(id int) taskx.Handler {
		return func(args any) (any, error) {
			lg.add("A", args.(int), id, lg.now())
			return nil, nil
		}
	}
	// one goroutine per distinct send offset
	sort.SliceStable(sends, func(i, j int) bool { return sends[i].off < sends[j].off })
	for i := 0; i < len(sends); {
		j := i
		for j < len(sends) && sends[j].off == sends[i].off {
			j++
		}
		grp := sends[i:j]
		wg.Add(1)
		go func() {
			defer wg.Done()
			sleepUntil(base, grp[0].off)
			for _, s := range grp {
				queues[s.q].SendDelayed(time.Duration(s.d), mkHandler(s.id))
			}
		}()
		i = j
	}
	for _, a := range acts {
		wg.Add(1)
		go func(a qact) {
			defer wg.Done()
			sleepUntil(base, a.off)
			if a.close {
				closeQ(a.q)
				return
			}
			select {
			case t := <-queues[a.q].C:
				lg.add("K", a.q, a.off, "got")
				_ = t.Do(a.q)
			default:
				lg.add("K", a.q, a.off, "empty")
			}
		}(a)
	}
	sleepUntil(base, end)
	close(stop)
	wg.Wait()
	// what is still buffered at the end (scripted queues), then make every queue harmless for
	// later cases: a closed queue never blocks the delayed loop
	for q := range caps {
		for more := true; more; {
			select {
			case t := <-queues[q].C:
				lg.add("Z", q)
				_ = t.Do(q)
			default:
				more = false
			}
		}
		closeQ(q)
	}
	return "base=" + itoa(base) + " " + lg.String()
}

func itoa(v int64) string {
	var l tlog
	l.add(v)
	return l.ents[0]
}
