package main

import (
	"fmt"
	"time"

	"github.com/lixianmin/got/taskx"
)

// c10pre trials=<n>      (virtual clock: faketime build, deterministic)
//
// A task handed over at a tick instant BEFORE the scheduler goroutine has handled that tick. Per trial, on a fresh
// queue: X is sent half a second before the tick B with a delay that makes it due exactly at B; a goroutine sleeps
// until B and, when it wakes, looks at the queue: if X has not been placed yet, the scheduler has not handled the
// tick B yet, so the task Y it sends now (delay 0, deadline B) is handed over before the tick is handled and the
// time the scheduler will read for that tick (B) is not before Y's deadline: Y must be released by the tick B, like
// X. (If X is already there the scheduler ran first: the trial is inconclusive and not counted.) Sleeping goroutines
// of other trials wake at the same instant, so both wake-up orders occur.
// Output: conclusive=<c> postponed=<k> first=<virtual ns by which Y arrived after B, first postponed trial>
func init() { register("c10pre", runC10pre) }

func runC10pre(toks []string) string {
	trials := 12
	for _, t := range toks[1:] {
		if len(t) > 7 && t[:7] == "trials=" {
			trials = int(atoi(t[7:]))
		}
	}
	conclusive, postponed, first := 0, 0, int64(-1)
	for i := 0; i < trials; i++ {
		b := nextTick() + second
		q := taskx.NewQueue(taskx.WithSize(8), taskx.WithErrorLogger(func(string, ...any) {}))
		sleepUntil(b, -second/2)
		q.SendDelayed(time.Duration(second/2), func(any) (any, error) { return "X", nil })
		// a varying number of other sleepers due at the same instant: changes the order in which the runtime wakes
		// the goroutines (and runs the ticker) at B
		for k := 0; k < i%4; k++ {
			go func() { sleepUntil(b, 0) }()
		}
		sleepUntil(b, 0)
		if len(q.C) != 0 {
			continue // the scheduler handled the tick B before this goroutine ran
		}
		conclusive++
		q.SendDelayed(0, func(any) (any, error) { return "Y", nil })
		got := 0
		var yAt int64
		for got < 2 {
			task := <-q.C
			task.Do(nil)
			if v := task.Get1(); v == "Y" {
				yAt = time.Now().UnixNano() - b
			}
			got++
		}
		if yAt >= second {
			postponed++
			if first < 0 {
				first = yAt
			}
		}
	}
	return fmt.Sprintf("conclusive=%d postponed=%d first=%d", conclusive, postponed, first)
}
