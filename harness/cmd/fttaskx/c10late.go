package main

import (
	"fmt"
	"time"

	"github.com/lixianmin/got/taskx"
)

// c10pre trials=<n>      (virtual clock: faketime build, deterministic)
//
// A task handed over at a tick instant BEFORE the scheduler goroutine has handled that tick. Per trial, on a fresh
// queue: X is sent half a second before the tick B with a delay that makes it due exactly at B; a goroutine sleeps
// until B and, when it wakes, looks at the queue: if X has not been placed yet, the scheduler has not handled the
// tick B yet, so the task Y it sends now (delay 0, deadline B) is handed over before the tick is handled and the
// time the scheduler will read for that tick (B) is not before Y's deadline: Y must be released by the tick B, like
// X. (If X is already there the scheduler ran first: the trial is inconclusive and not counted.) Sleeping goroutines
// of other trials wake at the same instant, so both wake-up orders occur.
// Output: conclusive=<c> postponed=<k> first=<virtual ns by which Y arrived after B, first postponed trial>
func init() { register("c10pre", runC10pre) }

func runC10pre(toks []string) string {
	trials := 12
	for _, t := range toks[1:] {
		if len(t) > 7 && t[:7] == "trials=" {
			trials = int(atoi(t[7:]))
		}
	}
	// one trial: sleepers extra goroutines waking at b as well; withX: the witness task X due at b is outstanding.
	// returns (conclusive, Y's arrival offset after b); without X conclusive is unknown (false)
	trial := func(i int, withX bool) (bool, int64) {
		b := nextTick() + second
		q := taskx.NewQueue(taskx.WithSize(8), taskx.WithErrorLogger(func(string, ...any) {}))
		sleepUntil(b, -second/2)
		if withX {
			q.SendDelayed(time.Duration(second/2), func(any) (any, error) { return "X", nil })
		}
		// a varying number of other sleepers due at the same instant: changes the order in which the runtime wakes
		// the goroutines (and runs the ticker) at b
		for k := 0; k < i%4; k++ {
			go func() { sleepUntil(b, 0) }()
		}
		sleepUntil(b, 0)
		if withX && len(q.C) != 0 {
			return false, 0 // the scheduler handled the tick b before this goroutine ran
		}
		q.SendDelayed(0, func(any) (any, error) { return "Y", nil })
		want := 1
		if withX {
			want = 2
		}
		var yAt int64
		for got := 0; got < want; got++ {
			task := <-q.C
			task.Do(nil)
			if v := task.Get1(); v == "Y" {
				yAt = time.Now().UnixNano() - b
			}
		}
		return withX, yAt
	}
	conclusive, postponed, first := 0, 0, int64(-1)
	// pairs: the same configuration once with the witness X and once with Y as the ONLY outstanding request (empty
	// heap when the tick is handled). The order in which the goroutines wake at b is a function of the timers created,
	// which X does not change, so a configuration that is conclusive with X is expected to be so without it.
	pairs, alonePostponed := 0, 0
	for i := 0; i < trials; i++ {
		c, yAt := trial(i, true)
		if !c {
			continue
		}
		conclusive++
		if yAt >= second {
			postponed++
			if first < 0 {
				first = yAt
			}
		}
		pairs++
		if _, y2 := trial(i, false); y2 >= second {
			alonePostponed++
		}
	}
	// burst: more hand-overs than the channel buffers (128) at the tick instant, each made while X has not been placed
	bc, bp := c10preBurst(200)
	return fmt.Sprintf("conclusive=%d postponed=%d first=%d pairs=%d alone_postponed=%d burst=%d burst_postponed=%d", conclusive, postponed, first, pairs, alonePostponed, bc, bp)
}

// c10preBurst: one goroutine, woken at the tick instant b before the scheduler handled that tick (witness X, due at b,
// not placed yet), hands over up to n delay-0 requests back to back, looking at the witness before each one; the
// hand-over channel buffers 128, so the 129th call parks in the channel's send queue and the scheduler runs. Every
// request whose call STARTED before the tick was handled is due at b. Returns how many there were and how many of them
// were placed a whole tick later. Tries several wake-up configurations until the goroutine runs first.
func c10preBurst(n int) (int, int) {
	for attempt := 0; attempt < 12; attempt++ {
		b := nextTick() + second
		q := taskx.NewQueue(taskx.WithSize(n+8), taskx.WithErrorLogger(func(string, ...any) {}))
		sleepUntil(b, -second/2)
		q.SendDelayed(time.Duration(second/2), func(any) (any, error) { return -1, nil })
		for k := 0; k < attempt%4; k++ {
			go func() { sleepUntil(b, 0) }()
		}
		sleepUntil(b, 0)
		started := 0
		for k := 0; k < n && len(q.C) == 0; k++ {
			started++
			k := k
			q.SendDelayed(0, func(any) (any, error) { return k, nil })
		}
		postponed := 0
		for got := 0; got < started+1; got++ {
			task := <-q.C
			task.Do(nil)
			if v, _ := task.Get1().(int); v >= 0 && time.Now().UnixNano()-b >= second {
				postponed++
			}
		}
		if started > 0 {
			return started, postponed
		}
	}
	return 0, 0
}
