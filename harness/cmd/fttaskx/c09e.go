package main

import (
	"fmt"
	"strconv"
	"strings"

	"github.com/lixianmin/got/taskx"
)

// c09e size=<S> seq=<k,k,...>   (k: e = SendTask(the empty task SendCallback(nil) yields), h = SendCallback(handler),
//                                t = SendTask(user task), n = SendCallback(nil) [sends nothing], z = SendTask(nil) [sends nothing])
//
// Monitor-only, identity level: one producer sends the sequence while nobody consumes (runs of at most S sends, the buffer
// is drained after each run), every received value is compared BY IDENTITY with what the send call returned / was given:
// "tasks sent by one goroutine appear on the queue's channel in the order they were sent, each exactly once" whatever
// kind of Task it is -- also a task that is already completed.
// Output: sent=<number of tasks that had to appear> got=<number received> match=<ok | bad@<position>>
func init() {
	register("c09e", func(toks []string) string {
		m := map[string]string{}
		for _, t := range toks[1:] {
			if i := strings.IndexByte(t, '='); i >= 0 {
				m[t[:i]] = t[i+1:]
			}
		}
		size, _ := strconv.Atoi(m["size"])
		closeChan := make(chan struct{})
		q := taskx.NewQueue(taskx.WithSize(size), taskx.WithCloseChan(closeChan), taskx.WithErrorLogger(func(string, ...any) {}))
		var want, got []taskx.Task
		drain := func() {
			for {
				select {
				case t := <-q.C:
					got = append(got, t)
					_ = t.Do(nil)
				default:
					return
				}
			}
		}
		inflight := 0
		for _, k := range strings.Split(m["seq"], ",") {
			if inflight == size {
				drain()
				inflight = 0
			}
			switch k {
			case "e":
				e := q.SendCallback(nil)
				want = append(want, q.SendTask(e))
				inflight++
			case "h":
				want = append(want, q.SendCallback(func(any) (any, error) { return 1, nil }))
				inflight++
			case "t":
				u := &userTask{do: func() error { return nil }}
				q.SendTask(u)
				want = append(want, u)
				inflight++
			case "n":
				q.SendCallback(nil)
			case "z":
				q.SendTask(nil)
			}
		}
		drain()
		match := "ok"
		for i := 0; i < len(want) || i < len(got); i++ {
			if i >= len(want) || i >= len(got) || want[i] != got[i] {
				match = fmt.Sprintf("bad@%d", i)
				break
			}
		}
		return fmt.Sprintf("sent=%d got=%d match=%s", len(want), len(got), match)
	})
}
