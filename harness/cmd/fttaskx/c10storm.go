package main

import (
	"fmt"
	"strings"
	"sync"
	"time"

	"github.com/lixianmin/got/taskx"
)

// c10storm senders=<n> per=<m> pre=<p>
//
// Concurrent SendDelayed calls racing with a tick of the REAL global delayed queue. At B+900ms one goroutine
// sends <p> requests (delay 50ms: all due at the tick B+1s); exactly at the tick instant B+1s, <n> goroutines
// become runnable together and send <m> requests each back to back (delay 100ms: due at the tick B+2s) while the
// scheduler goroutine is handling that tick (the virtual clock stands still while any goroutine is runnable, and
// with GOMAXPROCS=2 the senders and the scheduler really run in parallel). The target queue has room for
// everything and an eager consumer. Every request must arrive exactly once, not before its deadline and less than
// one tick after it.
// Output: total=<N> lost=<a> dup=<b> early=<c> late=<d> first=<id of the first offending request or -1>
func init() { register("c10storm", runC10storm) }

func runC10storm(toks []string) string {
	n, m, p := 4, 500, 300
	for _, t := range toks[1:] {
		switch {
		case strings.HasPrefix(t, "senders="):
			n = int(atoi(t[8:]))
		case strings.HasPrefix(t, "per="):
			m = int(atoi(t[4:]))
		case strings.HasPrefix(t, "pre="):
			p = int(atoi(t[4:]))
		}
	}
	total := p + n*m
	base := nextTick()
	sleepUntil(base, 0)
	stop := make(chan struct{})
	q := taskx.NewQueue(taskx.WithSize(total+16), taskx.WithCloseChan(make(chan struct{})), taskx.WithErrorLogger(func(string, ...any) {}))
	var mu sync.Mutex
	count := make([]int, total)
	arrive := make([]int64, total)
	deadline := make([]int64, total)
	var cwg sync.WaitGroup
	cwg.Add(1)
	go func() {
		defer cwg.Done()
		for {
			select {
			case t := <-q.C:
				_ = t.Do(nil)
			case <-stop:
				return
			}
		}
	}()
	mk := func(id int) taskx.Handler {
		return func(any) (any, error) {
			now := time.Now().UnixNano() - base
			mu.Lock()
			count[id]++
			if count[id] == 1 {
				arrive[id] = now
			}
			mu.Unlock()
			return nil, nil
		}
	}
	var wg sync.WaitGroup
	wg.Add(1)
	go func() {
		defer wg.Done()
		sleepUntil(base, 900*second/1000)
		for i := 0; i < p; i++ {
			deadline[i] = time.Now().UnixNano() - base + 50*second/1000
			q.SendDelayed(50*time.Millisecond, mk(i))
		}
	}()
	for s := 0; s < n; s++ {
		wg.Add(1)
		go func(s int) {
			defer wg.Done()
			sleepUntil(base, second)
			for i := 0; i < m; i++ {
				id := p + s*m + i
				deadline[id] = time.Now().UnixNano() - base + 100*second/1000
				q.SendDelayed(100*time.Millisecond, mk(id))
			}
		}(s)
	}
	wg.Wait()
	sleepUntil(base, 4*second+second/2)
	close(stop)
	cwg.Wait()
	lost, dup, early, late, first := 0, 0, 0, 0, -1
	mu.Lock()
	for id := 0; id < total; id++ {
		bad := false
		switch {
		case count[id] == 0:
			lost++
			bad = true
		case count[id] > 1:
			dup++
			bad = true
		}
		if count[id] >= 1 {
			if arrive[id] < deadline[id] {
				early++
				bad = true
			} else if arrive[id] >= deadline[id]+second {
				late++
				bad = true
			}
		}
		if bad && first < 0 {
			first = id
		}
	}
	mu.Unlock()
	return fmt.Sprintf("total=%d lost=%d dup=%d early=%d late=%d first=%d", total, lost, dup, early, late, first)
}
