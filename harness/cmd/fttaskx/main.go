// Command fttaskx is the faketime trace-validation vehicle for taskx (C09, C10). Build with
// -tags "verif faketime": time.Now, timers and tickers run on the playground clock, which
// advances only when every goroutine is blocked. One case per line in, one log line out
// (written to a FILE: fd 1/2 get playback framing under faketime).
package main

import (
	"bufio"
	"fmt"
	"os"
	"strings"
)

type handler func(toks []string) string

var handlers = map[string]handler{}

func register(tag string, h handler) { handlers[tag] = h }

func main() {
	if len(os.Args) != 3 {
		fmt.Fprintln(os.Stderr, "usage: fttaskx <cases> <out>")
		os.Exit(2)
	}
	in, err := os.Open(os.Args[1])
	if err != nil {
		panic(err)
	}
	defer in.Close()
	out, err := os.Create(os.Args[2])
	if err != nil {
		panic(err)
	}
	w := bufio.NewWriterSize(out, 1<<20)
	sc := bufio.NewScanner(in)
	sc.Buffer(make([]byte, 1<<20), 1<<28)
	for sc.Scan() {
		toks := strings.Fields(sc.Text())
		if len(toks) == 0 {
			continue
		}
		h, ok := handlers[toks[0]]
		if !ok {
			fmt.Fprintln(w, "BADCASE")
			continue
		}
		fmt.Fprintln(w, safe(h, toks))
	}
	w.Flush()
	out.Close()
}

// safe turns a Go panic (in the calling goroutine) into the observable "PANIC".
func safe(h handler, toks []string) (res string) {
	defer func() {
		if r := recover(); r != nil {
			res = "PANIC " + strings.ReplaceAll(fmt.Sprint(r), "\n", " ")
		}
	}()
	return h(toks)
}
