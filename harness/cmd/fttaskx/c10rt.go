package main

import (
	"fmt"
	"runtime"
	"time"

	"github.com/lixianmin/got/taskx"
)

// c10rt rounds=<n>      (REAL clock: the binary built WITHOUT the faketime tag; one P)
//
// The deadline of a request is fixed by the SendDelayed call (send time + delay), not by the moment the scheduler
// goroutine gets to see the request. With one P the sender below does not yield between its calls: A is sent with a
// delay of 3 ms, the sender is busy for 5 ms, then B is sent with delay 0 to the same queue, so
// deadline(A) <= (time read after A's call) + 3 ms < (time read before B's call) <= deadline(B) -- checked, a round in
// which the sender was descheduled for so long that this fails is not counted -- and A has to be released before B,
// whenever the scheduler goroutine runs (on the virtual clock the scheduler always runs between two calls that are apart
// in time, so this needs the real one). Releases wait for the 1 s tick: about a second per round.
// Output: rounds=<counted> misordered=<k> first=<order of the first bad round> late=<rounds not released within 2.5 s>
func init() {
	register("c10rt", func(toks []string) string {
		rounds := 3
		for _, t := range toks[1:] {
			if len(t) > 7 && t[:7] == "rounds=" {
				rounds = int(atoi(t[7:]))
			}
		}
		defer runtime.GOMAXPROCS(runtime.GOMAXPROCS(1))
		q := taskx.NewQueue(taskx.WithSize(16), taskx.WithErrorLogger(func(string, ...any) {}))
		counted, bad, late := 0, 0, 0
		first := "-"
		for r := 0; r < rounds; r++ {
			time.Sleep(20 * time.Millisecond) // a fresh time slice, the scheduler goroutine parked
			var order string
			q.SendDelayed(3*time.Millisecond, func(any) (any, error) { order += "A"; return nil, nil })
			afterA := time.Now()
			for time.Since(afterA) < 5*time.Millisecond {
			}
			beforeB := time.Now()
			q.SendDelayed(0, func(any) (any, error) { order += "B"; return nil, nil })
			timeout := time.After(2500 * time.Millisecond)
			for len(order) < 2 {
				select {
				case task := <-q.C:
					_ = task.Do(nil)
				case <-timeout:
					order += "?"
				}
				if len(order) > 0 && order[len(order)-1] == '?' {
					break
				}
			}
			if !afterA.Add(3 * time.Millisecond).Before(beforeB) {
				continue
			}
			counted++
			if len(order) != 2 || order[len(order)-1] == '?' {
				late++
			} else if order != "AB" {
				bad++
				if first == "-" {
					first = order
				}
			}
		}
		return fmt.Sprintf("rounds=%d misordered=%d first=%s late=%d", counted, bad, first, late)
	})
}
