package main

import (
	"strconv"
	"strings"
	"sync"
	"time"
)

func atoi(s string) int64 {
	v, err := strconv.ParseInt(s, 10, 64)
	if err != nil {
		panic("bad int " + s)
	}
	return v
}

// tlog is the in-memory observation log of one scenario.
type tlog struct {
	mu   sync.Mutex
	base int64
	ents []string
}

func (l *tlog) now() int64 { return time.Now().UnixNano() - l.base }

func (l *tlog) add(parts ...any) {
	var sb strings.Builder
	for i, p := range parts {
		if i > 0 {
			sb.WriteByte(':')
		}
		switch v := p.(type) {
		case string:
			sb.WriteString(v)
		case int:
			sb.WriteString(strconv.Itoa(v))
		case int64:
			sb.WriteString(strconv.FormatInt(v, 10))
		default:
			panic("tlog.add: bad type")
		}
	}
	l.mu.Lock()
	l.ents = append(l.ents, sb.String())
	l.mu.Unlock()
}

func (l *tlog) String() string {
	l.mu.Lock()
	defer l.mu.Unlock()
	return strings.Join(l.ents, " ")
}

// sleepUntil blocks until the virtual clock shows base+off (returns at once if it is later).
func sleepUntil(base, off int64) {
	d := base + off - time.Now().UnixNano()
	if d > 0 {
		time.Sleep(time.Duration(d))
	}
}

const second = int64(1000000000)

// nextTick returns the next whole virtual second strictly after now: taskx's global delayed
// queue creates its 1 s ticker at process start (a whole second under faketime), so whole
// seconds are its tick instants.
func nextTick() int64 {
	n := time.Now().UnixNano()
	return (n/second + 1) * second
}

type idErr struct{ id int64 }

func (e *idErr) Error() string { return "err#" + strconv.FormatInt(e.id, 10) }

func mkVal(r int64) any {
	if r == 0 {
		return nil
	}
	return r
}

func mkErr(e int64) error {
	if e == 0 {
		return nil
	}
	return &idErr{e}
}

func valID(v any) int64 {
	if v == nil {
		return 0
	}
	if x, ok := v.(int64); ok {
		return x
	}
	return -1
}

func errID(e error) int64 {
	if e == nil {
		return 0
	}
	if x, ok := e.(*idErr); ok {
		return x.id
	}
	return -1
}
