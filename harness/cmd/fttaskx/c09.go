package main

import (
	"fmt"
	"strings"
	"sync"
	"time"

	"github.com/lixianmin/got/taskx"
)

// c09 size=<S> prods=<n> step=<ns> ACT...
//
// Real goroutines under faketime; the orchestrator performs the k-th action at virtual instant
// (k+1)*step, so producer / consumer / close order is the script's. Actions:
//
//	P<i>:h:<r>:<e>:<dur>   producer i calls SendCallback(handler returning (r,e) after dur ns)
//	P<i>:n                 producer i calls SendCallback(nil)
//	P<i>:t:<r>:<e>:<dur>   producer i calls SendTask(user task whose Do returns e after dur ns)
//	P<i>:z                 producer i calls SendTask(nil)
//	R                      the consumer tries to receive ONE task from Queue.C and executes it once
//	C                      close the close channel
//	G<1|2>:<i>:<j>         start a goroutine calling Get1 / Get2 on what producer i's j-th call returned
//
// "blocked" = has not returned when the script is over (the clock advanced past every later
// instant). Log (virtual ns since the scenario start):
//
//	c:<i>:<j>:<t> call   r:<i>:<j>:<t>:<E|N|T> return (taskEmpty / nil / a task)   b:<i>:<t> producer busy, action skipped
//	R:<t>:<got|empty|busy>   x:<i>:<j>:<t> handler/Do of task (i,j) starts   y:<i>:<j>:<t> it ends   d:<t> Do returned
//	g:<k>:<t0>:<t1>:<r>:<e>  getter of action k started at t0, returned (r,e) at t1 (t1=-1: still blocked at the end)
//	g:<k>:noref              the call has not returned a task yet
//	L:<t>:<len>              len(Queue.C) observed by the orchestrator before the action at t
//	END:<t>  then the cleanup phase: Z:<i>:<j> tasks still buffered, in channel order
func init() { register("c09", runC09) }

type userTask struct {
	do func() error
}

func (u *userTask) Do(args any) error  { return u.do() }
func (u *userTask) Get1() any          { return nil }
func (u *userTask) Get2() (any, error) { return nil, nil }

type c09cmd struct {
	kind byte // h n t z
	r, e int64
	dur  int64
}

func runC09(toks []string) string {
	var size, nprod int
	step := int64(1024)
	var acts []string
	for _, t := range toks[1:] {
		switch {
		case strings.HasPrefix(t, "size="):
			size = int(atoi(t[5:]))
		case strings.HasPrefix(t, "prods="):
			nprod = int(atoi(t[6:]))
		case strings.HasPrefix(t, "step="):
			step = atoi(t[5:])
		default:
			acts = append(acts, t)
		}
	}
	base := time.Now().UnixNano()
	lg := &tlog{base: base}
	closeCh := make(chan struct{})
	// the error-logger option varies with the script (its observable behaviour must not): a function, the option
	// left out (default logger, writes to stderr), or WithErrorLogger(nil)
	qopts := []taskx.Option{taskx.WithSize(size), taskx.WithCloseChan(closeCh)}
	switch (size + nprod + len(acts)) % 4 {
	case 0:
		qopts = append(qopts, taskx.WithErrorLogger(nil))
	case 1:
	default:
		qopts = append(qopts, taskx.WithErrorLogger(func(string, ...any) {}))
	}
	q := taskx.NewQueue(qopts...)
	var panicMsg string

	var mu sync.Mutex
	busy := make([]bool, nprod)
	calls := make([]int, nprod)
	rets := make([][]taskx.Task, nprod)
	cleanup := false
	cmds := make([]chan c09cmd, nprod)
	sleepFor := func(d int64) {
		mu.Lock()
		c := cleanup
		mu.Unlock()
		if !c && d > 0 {
			time.Sleep(time.Duration(d))
		}
	}
	for i := 0; i < nprod; i++ {
		cmds[i] = make(chan c09cmd)
		go func(i int) {
			for c := range cmds[i] {
				mu.Lock()
				j := calls[i]
				calls[i]++
				mu.Unlock()
				lg.add("c", i, j, lg.now())
				var ret taskx.Task
				kind := "T"
				func() {
					defer func() {
						if r := recover(); r != nil {
							mu.Lock()
							if panicMsg == "" {
								panicMsg = fmt.Sprintf("PANIC producer %d call %d (%c) at %d: %v", i, j, c.kind, lg.now(), r)
							}
							mu.Unlock()
						}
					}()
					switch c.kind {
					case 'h':
						c := c
						ret = q.SendCallback(func(args any) (any, error) {
							lg.add("x", i, j, lg.now())
							sleepFor(c.dur)
							lg.add("y", i, j, lg.now())
							return mkVal(c.r), mkErr(c.e)
						})
					case 'n':
						ret = q.SendCallback(nil)
						kind = "E"
					case 't':
						c := c
						ret = q.SendTask(&userTask{do: func() error {
							lg.add("x", i, j, lg.now())
							sleepFor(c.dur)
							lg.add("y", i, j, lg.now())
							return mkErr(c.e)
						}})
					case 'z':
						ret = q.SendTask(nil)
						kind = "N"
					}
				}()
				if kind == "E" {
					// taskEmpty: already completed, Get2 = (nil, nil), Do is a no-op
					r, e := ret.Get2()
					if ret.Get1() != nil || r != nil || e != nil || ret.Do(nil) != nil {
						kind = "E!"
					}
				}
				if kind == "N" && ret != nil {
					kind = "N!"
				}
				lg.add("r", i, j, lg.now(), kind)
				mu.Lock()
				rets[i] = append(rets[i], ret)
				busy[i] = false
				mu.Unlock()
			}
		}(i)
	}
	consBusy := false
	closed := false
	gwait := map[int]int64{}
	for k, a := range acts {
		sleepUntil(base, int64(k+1)*step)
		now := lg.now()
		lg.add("L", now, len(q.C))
		switch {
		case a[0] == 'P':
			f := strings.Split(a, ":")
			i := int(atoi(f[0][1:]))
			mu.Lock()
			b := busy[i]
			if !b {
				busy[i] = true
			}
			mu.Unlock()
			if b {
				lg.add("b", i, now)
				continue
			}
			c := c09cmd{kind: f[1][0]}
			if c.kind == 'h' || c.kind == 't' {
				c.r, c.e, c.dur = atoi(f[2]), atoi(f[3]), atoi(f[4])
			}
			cmds[i] <- c
		case a == "R":
			mu.Lock()
			b := consBusy
			mu.Unlock()
			if b {
				lg.add("R", now, "busy")
				continue
			}
			select {
			case t := <-q.C:
				lg.add("R", now, "got")
				mu.Lock()
				consBusy = true
				mu.Unlock()
				go func() {
					_ = t.Do(nil)
					lg.add("d", lg.now())
					mu.Lock()
					consBusy = false
					mu.Unlock()
				}()
			default:
				lg.add("R", now, "empty")
			}
		case a == "C":
			if !closed {
				closed = true
				close(closeCh)
			}
		case a[0] == 'G':
			f := strings.Split(a, ":")
			i, j := int(atoi(f[1])), int(atoi(f[2]))
			mu.Lock()
			var t taskx.Task
			ok := j < len(rets[i]) && rets[i][j] != nil
			if ok {
				t = rets[i][j]
			}
			mu.Unlock()
			if !ok {
				lg.add("g", k, "noref")
				continue
			}
			two := f[0] == "G2"
			mu.Lock()
			gwait[k] = now
			mu.Unlock()
			go func(k int) {
				t0 := lg.now()
				var r any
				var e error
				if two {
					r, e = t.Get2()
				} else {
					r = t.Get1()
				}
				mu.Lock()
				delete(gwait, k)
				c := cleanup
				mu.Unlock()
				if !c {
					lg.add("g", k, t0, lg.now(), valID(r), errID(e))
				}
			}(k)
		}
	}
	sleepUntil(base, int64(len(acts)+4)*step+maxDur(acts))
	end := lg.now()
	mu.Lock()
	for k := range acts {
		if t0, ok := gwait[k]; ok {
			lg.add("g", k, t0, -1, 0, 0)
		}
	}
	for i := 0; i < nprod; i++ {
		if busy[i] {
			lg.add("blocked", i)
		}
	}
	mu.Unlock()
	lg.add("END", end)
	// cleanup: nothing of this scenario may keep running. Whoever is still blocked stays blocked
	// forever (harmless); buffered tasks are identified by executing them without sleeping.
	mu.Lock()
	cleanup = true
	mu.Unlock()
	if !closed {
		close(closeCh)
	}
	for more := true; more; {
		select {
		case t := <-q.C:
			lg.add("Z")
			_ = t.Do(nil)
		default:
			more = false
		}
	}
	for i := range cmds {
		mu.Lock()
		b := busy[i]
		mu.Unlock()
		if !b {
			close(cmds[i])
		}
	}
	mu.Lock()
	pm := panicMsg
	mu.Unlock()
	if pm != "" {
		return strings.ReplaceAll(pm, "\n", " ")
	}
	return lg.String()
}

// maxDur: the longest handler duration of the script (so that the end instant is after every
// handler end).
func maxDur(acts []string) int64 {
	var m int64
	for _, a := range acts {
		f := strings.Split(a, ":")
		if len(f) == 5 {
			if d := atoi(f[4]); d > m {
				m = d
			}
		}
	}
	return m * int64(len(acts)+1)
}
