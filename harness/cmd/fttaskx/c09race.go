package main

import (
	"fmt"
	"strconv"
	"strings"
	"sync"
	"sync/atomic"
	"time"

	"github.com/lixianmin/got/taskx"
)

// c09race size=<S> prods=<P> free=<F> trials=<N> kind=<cb|task>
//
// Monitor-only scenario for "once the close channel is closed, sends return without blocking
// even if the queue is full": the buffer is filled up to F free slots, then P producers are
// released AT THE SAME virtual instant (the runtime interleaves them for real, on 2 Ps), there
// is no consumer, and 1000 ns later the close channel is closed. Every send must have
// returned by then + 1 ms of virtual time. Output: trials=<N> stuck=<number of trials with a
// send still blocked> first=<index of the first such trial or -1> maxlen=<largest len(C) seen>
func init() {
	register("c09race", func(toks []string) string {
		m := map[string]string{}
		for _, t := range toks[1:] {
			if i := strings.IndexByte(t, '='); i >= 0 {
				m[t[:i]] = t[i+1:]
			}
		}
		atoi := func(s string) int { v, _ := strconv.Atoi(s); return v }
		size, prods, free, trials := atoi(m["size"]), atoi(m["prods"]), atoi(m["free"]), atoi(m["trials"])
		stuck, first, maxlen := 0, -1, 0
		for tr := 0; tr < trials; tr++ {
			closeChan := make(chan struct{})
			q := taskx.NewQueue(taskx.WithSize(size), taskx.WithCloseChan(closeChan), taskx.WithErrorLogger(func(string, ...any) {}))
			for i := 0; i < size-free; i++ {
				q.SendCallback(func(any) (any, error) { return nil, nil })
			}
			start := make(chan struct{})
			var returned int32
			var wg sync.WaitGroup
			for p := 0; p < prods; p++ {
				wg.Add(1)
				go func() {
					defer wg.Done()
					<-start
					if m["kind"] == "task" {
						q.SendTask(&userTask{do: func() error { return nil }})
					} else {
						q.SendCallback(func(any) (any, error) { return nil, nil })
					}
					atomic.AddInt32(&returned, 1)
				}()
			}
			time.Sleep(10) // all producers parked on the barrier
			close(start)
			time.Sleep(1000)
			if l := len(q.C); l > maxlen {
				maxlen = l
			}
			close(closeChan)
			done := make(chan struct{})
			go func() { wg.Wait(); close(done) }()
			select {
			case <-done:
			case <-time.After(time.Millisecond):
				stuck++
				if first < 0 {
					first = tr
				}
			}
		}
		return fmt.Sprintf("trials=%d stuck=%d first=%d maxlen=%d", trials, stuck, first, maxlen)
	})
}
