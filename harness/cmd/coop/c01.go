package main

import (
	"fmt"
	"strconv"
	"strings"

	"github.com/lixianmin/got/loom"
	"verif/harness/internal/coop"
)

// Queue cases (C01/C02).
//   c01 pre=1,2 progs=P5.O;O.P7 sched=0,1,1,0
//     pre: values pushed sequentially before the threads start; progs: one program per
//     thread (';'), operations separated by '.', P<v> = Push(v), O = Pop.
//     Output: steps=<event per scheduled step> fin=<tid:event round-robin completion> drain=[...]
//   c02 pre=.. progs=.. sched=<prefix> solo=<tid>
//     after the prefix, thread <tid> runs alone until its current operation returns;
//     output: steps=... solo=<number of steps | none> (cap 64) fin=... drain=[...]
func queueProgs(q *loom.Queue, spec string) [][]coop.Op {
	var progs [][]coop.Op
	for _, p := range strings.Split(spec, ";") {
		var ops []coop.Op
		for _, o := range splitNonEmpty(p, ".") {
			if o == "O" {
				ops = append(ops, func() string {
					v := q.Pop()
					if v == nil {
						return "pop=nil"
					}
					return fmt.Sprintf("pop=%v", v)
				})
			} else if strings.HasPrefix(o, "P") {
				v := atoi(o[1:])
				ops = append(ops, func() string { queuePush(q, v); return "push" })
			} else {
				panic("bad op " + o)
			}
		}
		progs = append(progs, ops)
	}
	return progs
}

// queuePush: value 0 stands for Push(nil) (the queue tolerates nil values: such a Pop returns nil)
func queuePush(q *loom.Queue, v int) {
	if v == 0 {
		q.Push(nil)
	} else {
		q.Push(v)
	}
}

// drain pops until 8 Pops in a row returned nil (nil VALUES may be queued); trailing nils are dropped
func drain(q *loom.Queue) string {
	var l []string
	nils := 0
	for n := 0; n < 100000 && nils < 8; n++ {
		v := q.Pop()
		if v == nil {
			nils++
			l = append(l, "nil")
			continue
		}
		nils = 0
		l = append(l, fmt.Sprint(v))
	}
	for len(l) > 0 && l[len(l)-1] == "nil" {
		l = l[:len(l)-1]
	}
	return "[" + strings.Join(l, ",") + "]"
}

func init() {
	run := func(toks []string, solo bool) string {
		m := kv(toks[1:])
		q := loom.NewQueue()
		for _, v := range intList(m["pre"]) {
			queuePush(q, v)
		}
		s := coop.New(queueProgs(q, m["progs"]))
		loom.VerifYield = s.Yield
		defer func() { loom.VerifYield = nil }()
		var sb strings.Builder
		sched := intList(m["sched"])
		if solo {
			for i, tid := range sched {
				if i > 0 {
					sb.WriteByte(',')
				}
				sb.WriteString(s.Step(tid).String())
			}
			tid := atoi(m["solo"])
			res := "none"
			if tid < len(s.Threads) && s.Threads[tid].AtSite != 0 {
				for k := 1; k <= 64; k++ {
					ev := s.Step(tid)
					if ev.Kind != coop.KYield {
						res = strconv.Itoa(k)
						break
					}
				}
			} else {
				res = "idle"
			}
			rest, _ := runSchedule(s, nil)
			return "steps=" + sb.String() + " solo=" + res + rest + " drain=" + drain(q)
		}
		tr, ok := runSchedule(s, sched)
		if !ok {
			return "steps=" + tr + " LIVELOCK"
		}
		return "steps=" + tr + " drain=" + drain(q)
	}
	register("c01", func(toks []string) string { return run(toks, false) })
	register("c02", func(toks []string) string { return run(toks, true) })
}
