//go:build cachexhooks

package main

import (
	"errors"
	"fmt"
	"strconv"
	"strings"
	"time"

	"github.com/lixianmin/got/cachex"
	"verif/harness/internal/coop"
)

// cachex schedule cases (C04, scheduled stream). Needs the cachex verif hooks
// (tools/hooks/cachex-verif-hooks.patch) and the build tags "verif cachexhooks".
//
//	c04s keys=<n> init=<setup> progs=<p0;p1;...> sched=<item,item,...>
//	  One cache without job goroutines, gc ticker and finalizer per case (expire 1h, error
//	  expire 20min, job queue 64); key index i is the int key 1+32*i (one shard).
//	  init (',' separated, run before the yield hook is installed): L<k> Load, S<k>:<v>:<e> Set,
//	  F:<v>:<e> take the head job and complete it, B<fid>:<secs> back-date future fid.
//	  progs: one program per thread (';'), ops separated by '.': L<k> Load -> f<id>,
//	  G<k> Get2 -> <v>:<e>, S<k>:<v>:<e> Set -> -, F:<v>:<e> worker (take a job, yield at the
//	  harness site "loaded", setValue) -> fin | nojob, Z removeRotted -> -.
//	  sched items: <tid> = one step of that thread; t<secs> = the virtual clock advances, which
//	  is emulated by back-dating every completed future (and remembering the shift for the
//	  threads that have read the clock but not yet published their time stamp).
//	  The scheduler is mutex-aware (owner of the shard mutex tracked through the AfterLock/
//	  AfterUnlock yield events; a thread before a held mutex or before the WaitGroup of an
//	  uncompleted future is disabled), so a managed goroutine never blocks in the library.
//	  Output: steps=<obs>;... fin=<tid>:<obs>;... end=ok|stuck:<tids>
//	  obs = <ev>/q<queue length>/m<map entry per key: future id or ->.../<per future: <done><pred>>,...
type csThread struct {
	kind   byte           // current (or last) operation: L G S F Z
	key    int            // key index of the current S operation
	jobFut *cachex.Future // F: the job future taken from the queue
	retFut *cachex.Future // L: the future returned (rendered after the registration scan)
	inZ    bool           // inside a Z operation
	zLocks int            // Z: number of BeforeLock yields so far
}

type csCase struct {
	c        cachex.Cache
	s        *coop.Sched
	n        int
	shard    int
	futs     []*cachex.Future
	ids      map[*cachex.Future]int
	complete map[*cachex.Future]bool
	owner    int
	th       []*csThread
	waitOf   map[int]*cachex.Future
	pending  map[int]int // seconds of back-dating owed by a thread's not yet visible time stamp
}

const csSiteLoaded = 100

// set once a managed goroutine got stuck in the library (see wcHung)
var csHung bool

func csKey(i int) int { return 1 + 32*i }

func csValOf(v int) any {
	if v == 0 {
		return nil
	}
	return v
}

func csErrOf(e int) error {
	if e == 0 {
		return nil
	}
	return errors.New("e" + strconv.Itoa(e))
}

func csVal(v any) string {
	switch x := v.(type) {
	case nil:
		return "0"
	case int:
		return strconv.Itoa(x)
	}
	return "?"
}

func csErr(err error) string {
	if err == nil {
		return "0"
	}
	return strings.TrimPrefix(err.Error(), "e")
}

func csLoader(key any) (any, error) {
	panic("c04s: the loader must never be invoked")
}

func csSiteName(site int) string {
	switch site {
	case cachex.VerifSiteBeforeLock:
		return "yBL"
	case cachex.VerifSiteAfterLock:
		return "yAL"
	case cachex.VerifSiteAfterUnlock:
		return "yAU"
	case cachex.VerifSiteLoadUpdateTime:
		return "yLU"
	case cachex.VerifSiteReadErr:
		return "yRE"
	case cachex.VerifSiteLoadPredecessor:
		return "yLP"
	case cachex.VerifSiteStoreUpdateTime:
		return "ySU"
	case cachex.VerifSiteStorePredecessor:
		return "ySP"
	case cachex.VerifSiteSendJob:
		return "ySJ"
	case cachex.VerifSiteFutureWait:
		return "yFW"
	case csSiteLoaded:
		return "yLD"
	}
	return "y?" + strconv.Itoa(site)
}

func (c *csCase) register(f *cachex.Future) {
	if f == nil {
		return
	}
	if _, ok := c.ids[f]; ok {
		return
	}
	c.ids[f] = len(c.futs)
	c.futs = append(c.futs, f)
	if done, _ := cachex.VerifFutureState(f); done {
		c.complete[f] = true // made by Set: complete before it became visible
	}
}

func (c *csCase) preds() {
	for id := 0; id < len(c.futs); id++ {
		_, p := cachex.VerifFutureState(c.futs[id])
		c.register(p)
	}
}

// scan registers unseen futures: the map entries in key order, then (defensively)
// predecessors, job futures, Load results and wait targets.
func (c *csCase) scan() {
	for i := 0; i < c.n; i++ {
		c.register(cachex.VerifPeek(c.c, csKey(i)))
	}
	c.preds()
	for _, st := range c.th {
		c.register(st.jobFut)
	}
	for _, st := range c.th {
		c.register(st.retFut)
	}
	for tid := range c.th {
		c.register(c.waitOf[tid])
	}
	c.preds()
}

func (c *csCase) fname(f *cachex.Future) string {
	if f == nil {
		return "fnil"
	}
	id, ok := c.ids[f]
	if !ok {
		return "f?"
	}
	return "f" + strconv.Itoa(id)
}

func (c *csCase) obs(ev string) string {
	var sb strings.Builder
	sb.WriteString(ev)
	sb.WriteString("/q")
	sb.WriteString(strconv.Itoa(cachex.VerifQueueLen(c.c)))
	sb.WriteString("/m")
	for i := 0; i < c.n; i++ {
		if i > 0 {
			sb.WriteByte('.')
		}
		if f := cachex.VerifPeek(c.c, csKey(i)); f == nil {
			sb.WriteByte('-')
		} else {
			sb.WriteString(strconv.Itoa(c.ids[f]))
		}
	}
	sb.WriteByte('/')
	for id, f := range c.futs {
		if id > 0 {
			sb.WriteByte(',')
		}
		done, p := cachex.VerifFutureState(f)
		if done {
			sb.WriteByte('1')
		} else {
			sb.WriteByte('0')
		}
		if p == nil {
			sb.WriteByte('-')
		} else {
			sb.WriteString(strconv.Itoa(c.ids[p]))
		}
	}
	return sb.String()
}

// "<x>:<v>:<e>" -> x, v, e
func csSplit3(o string) (string, int, int) {
	p := strings.Split(o, ":")
	if len(p) != 3 {
		panic("bad op " + o)
	}
	return p[0], atoi(p[1]), atoi(p[2])
}

func (c *csCase) keyOf(s string) int {
	k := atoi(s)
	if k < 0 || k >= c.n {
		panic("bad key index " + s)
	}
	return k
}

func (c *csCase) init(spec string) {
	for _, o := range splitNonEmpty(spec, ",") {
		switch {
		case o == "":
			panic("empty init op")
		case o[0] == 'L':
			c.register2(c.c.Load(csKey(c.keyOf(o[1:])), csLoader))
		case o[0] == 'S':
			x, v, e := csSplit3(o)
			c.c.Set(csKey(c.keyOf(x[1:])), csValOf(v), csErrOf(e))
			c.scan()
		case o[0] == 'F':
			x, v, e := csSplit3(o)
			if x != "F" {
				panic("bad init op " + o)
			}
			_, f, ok := cachex.VerifTakeJob(c.c)
			if !ok {
				panic("init F: no job queued")
			}
			cachex.VerifSetValue(f, csValOf(v), csErrOf(e))
			c.complete[f] = true
			c.register2(f)
		case o[0] == 'B':
			p := strings.Split(o[1:], ":")
			if len(p) != 2 {
				panic("bad init op " + o)
			}
			fid := atoi(p[0])
			if fid < 0 || fid >= len(c.futs) {
				panic("init B: unknown future " + p[0])
			}
			cachex.VerifShift(c.futs[fid], time.Duration(atoi(p[1]))*time.Second)
			c.scan()
		default:
			panic("bad init op " + o)
		}
	}
}

// register2: map scan first, then the extra future (defensive)
func (c *csCase) register2(f *cachex.Future) {
	c.scan()
	c.register(f)
	c.preds()
}

func (c *csCase) progs(spec string) [][]coop.Op {
	var progs [][]coop.Op
	for _, p := range splitNonEmpty(spec, ";") {
		st := &csThread{}
		c.th = append(c.th, st)
		var ops []coop.Op
		for _, o := range splitNonEmpty(p, ".") {
			switch {
			case o == "Z":
				ops = append(ops, func() string {
					st.kind = 'Z'
					st.inZ = true
					st.zLocks = 0
					defer func() { st.inZ = false }()
					cachex.VerifSweep(c.c)
					return "-"
				})
			case o[0] == 'L':
				key := csKey(c.keyOf(o[1:]))
				ops = append(ops, func() string {
					st.kind = 'L'
					st.retFut = nil
					st.retFut = c.c.Load(key, csLoader)
					return "L"
				})
			case o[0] == 'G':
				key := csKey(c.keyOf(o[1:]))
				ops = append(ops, func() string {
					st.kind = 'G'
					v, err := c.c.Get2(key)
					return csVal(v) + ":" + csErr(err)
				})
			case o[0] == 'S':
				x, v, e := csSplit3(o)
				k := c.keyOf(x[1:])
				ops = append(ops, func() string {
					st.kind = 'S'
					st.key = k
					c.c.Set(csKey(k), csValOf(v), csErrOf(e))
					return "-"
				})
			case o[0] == 'F':
				x, v, e := csSplit3(o)
				if x != "F" {
					panic("bad op " + o)
				}
				ops = append(ops, func() string {
					st.kind = 'F'
					st.jobFut = nil
					_, f, ok := cachex.VerifTakeJob(c.c)
					if !ok {
						return "nojob"
					}
					st.jobFut = f
					c.s.Yield(csSiteLoaded) // the loader has returned; the result is not published yet
					cachex.VerifSetValue(f, csValOf(v), csErrOf(e))
					return "fin"
				})
			default:
				panic("bad op " + o)
			}
		}
		if len(ops) == 0 {
			panic("empty program")
		}
		progs = append(progs, ops)
	}
	return progs
}

// hook is installed as cachex.VerifYield: the sweep of the shards that no key of the case
// lives in runs through, everything else parks.
func (c *csCase) hook(site int) {
	if t := c.s.Cur(); t != nil && t.ID < len(c.th) {
		if st := c.th[t.ID]; st.inZ {
			if site == cachex.VerifSiteBeforeLock {
				st.zLocks++
			}
			if st.zLocks-1 != c.shard {
				return
			}
		}
	}
	c.s.Yield(site)
}

func (c *csCase) onEvent(t *coop.Thread, e coop.Event) {
	switch e.Kind {
	case coop.KYield:
		switch e.Site {
		case cachex.VerifSiteAfterLock:
			c.owner = t.ID
		case cachex.VerifSiteAfterUnlock:
			c.owner = -1
		case cachex.VerifSiteFutureWait:
			c.waitOf[t.ID] = cachex.VerifWaiting
		}
	case coop.KRet:
		if st := c.th[t.ID]; st.kind == 'F' && e.Val == "fin" {
			c.complete[st.jobFut] = true
		}
	}
}

func (c *csCase) blocked(t *coop.Thread) bool {
	return (t.AtSite == cachex.VerifSiteBeforeLock && c.owner >= 0) ||
		(t.AtSite == cachex.VerifSiteFutureWait && !c.complete[c.waitOf[t.ID]])
}

// step with a watchdog (see wcCase.step)
func (c *csCase) step(tid int) (string, bool) {
	inRange := tid >= 0 && tid < len(c.s.Threads)
	prev := -1
	if inRange {
		prev = c.s.Threads[tid].AtSite
	}
	done := make(chan coop.Event, 1)
	go func() { done <- c.s.Step(tid) }()
	var ev coop.Event
	select {
	case ev = <-done:
	case <-time.After(2 * time.Second):
		csHung = true
		return "HANG", false
	}
	executed := inRange && (ev.Kind == coop.KYield || ev.Kind == coop.KRet || ev.Kind == coop.KPanic)
	var setFut *cachex.Future
	if executed {
		st := c.th[tid]
		if prev == cachex.VerifSiteStoreUpdateTime && st.kind == 'F' && c.pending[tid] > 0 {
			// the worker has published the time stamp it had read before the ticks
			cachex.VerifShift(st.jobFut, time.Duration(c.pending[tid])*time.Second)
			c.pending[tid] = 0
		}
		if prev == cachex.VerifSiteStorePredecessor && st.kind == 'S' {
			// Set has put its future into the map within this step (it still held the mutex)
			setFut = cachex.VerifPeek(c.c, csKey(st.key))
		}
	}
	c.scan()
	if executed && prev == cachex.VerifSiteStorePredecessor && c.th[tid].kind == 'S' {
		if setFut != nil && c.pending[tid] > 0 {
			cachex.VerifShift(setFut, time.Duration(c.pending[tid])*time.Second)
		}
		c.pending[tid] = 0
	}
	var name string
	switch ev.Kind {
	case coop.KYield:
		name = csSiteName(ev.Site)
		if ev.Site == cachex.VerifSiteFutureWait {
			name += ":" + c.fname(c.waitOf[tid])
		}
	case coop.KRet:
		if st := c.th[tid]; st.kind == 'L' && ev.Val == "L" {
			name = "r:" + c.fname(st.retFut)
		} else {
			name = "r:" + ev.Val
		}
	case coop.KPanic:
		name = "panic:" + csClean(ev.Val)
	default:
		name = ev.String() // done, blocked
	}
	return c.obs(name), true
}

// csClean keeps a panic message inside one obs field.
func csClean(s string) string {
	return strings.Map(func(r rune) rune {
		switch r {
		case ' ', '\t', '\n', '\r':
			return '_'
		case ';', '/':
			return '|'
		}
		return r
	}, s)
}

func (c *csCase) tick(secs int) string {
	d := time.Duration(secs) * time.Second
	for _, f := range c.futs {
		cachex.VerifShift(f, d) // no-op while the future has no time stamp
	}
	for tid, t := range c.s.Threads {
		switch {
		case t.AtSite == cachex.VerifSiteStoreUpdateTime:
			c.pending[tid] += secs
		case t.AtSite == cachex.VerifSiteStorePredecessor && c.th[tid].kind == 'S':
			c.pending[tid] += secs // time stamp stored, but the future is not visible yet
		}
	}
	c.scan()
	return c.obs("tick")
}

func runC04s(toks []string) string {
	if csHung {
		return "steps= HANG"
	}
	m := kv(toks[1:])
	c := &csCase{
		n:        atoi(m["keys"]),
		ids:      map[*cachex.Future]int{},
		complete: map[*cachex.Future]bool{},
		owner:    -1,
		waitOf:   map[int]*cachex.Future{},
		pending:  map[int]int{},
	}
	if c.n < 0 || c.n > 1024 {
		panic("bad keys")
	}
	c.shard = cachex.VerifShardIndex(csKey(0))
	for i := 0; i < c.n; i++ {
		if cachex.VerifShardIndex(csKey(i)) != c.shard {
			panic(fmt.Sprintf("key %d is not in shard %d", csKey(i), c.shard))
		}
	}
	cachex.VerifYield = nil
	c.c = cachex.VerifNewCacheNoWorkers(cachex.WithExpire(time.Hour, 20*time.Minute), cachex.WithJobChanSize(64))
	c.init(m["init"])
	c.s = coop.New(c.progs(m["progs"]))
	c.s.OnEvent = c.onEvent
	c.s.Blocked = c.blocked
	cachex.VerifYield = c.hook
	defer func() { cachex.VerifYield = nil }()

	var sb strings.Builder
	sb.WriteString("steps=")
	for i, item := range splitNonEmpty(m["sched"], ",") {
		if i > 0 {
			sb.WriteByte(';')
		}
		if strings.HasPrefix(item, "t") {
			secs := atoi(item[1:])
			if secs < 0 {
				panic("bad tick " + item)
			}
			sb.WriteString(c.tick(secs))
			continue
		}
		o, ok := c.step(atoi(item))
		sb.WriteString(o)
		if !ok {
			return sb.String() + " HANG"
		}
	}
	sb.WriteString(" fin=")
	first := true
	finished := false
	for n := 0; n < 4096 && !finished; n++ {
		progressed := false
		for i := range c.s.Threads {
			if c.s.Enabled(i) {
				o, ok := c.step(i)
				if !first {
					sb.WriteByte(';')
				}
				first = false
				sb.WriteString(strconv.Itoa(i) + ":" + o)
				if !ok {
					return sb.String() + " HANG"
				}
				progressed = true
			}
		}
		if !progressed {
			finished = true
		}
	}
	if !finished {
		return sb.String() + " LIVELOCK"
	}
	// a thread that is neither finished (or dead) nor enabled waits for ever; its goroutine
	// stays parked
	var stuck []string
	for i := range c.s.Threads {
		if ev := c.s.Step(i); ev.Kind != coop.KDone {
			stuck = append(stuck, strconv.Itoa(i))
		}
	}
	if len(stuck) > 0 {
		return sb.String() + " end=stuck:" + strings.Join(stuck, ",")
	}
	return sb.String() + " end=ok"
}

func init() {
	register("c04s", runC04s)
}
