//go:build cachexhooks

package main

import (
	"bytes"
	"fmt"
	"reflect"
	"runtime"
	"strconv"
	"strings"
	"sync"
	"sync/atomic"
	"time"
	"unsafe"

	"github.com/lixianmin/got/cachex"
)

// cachex liveness cases (C06, stream "liveness-steps"): the real cachex calls, the job
// goroutines and the sweep of the gc tick run one shared access at a time under a deterministic
// scheduler; the model side is coq/models/CacheLiveSteps.v through ocaml/drv_c06s.ml, whose
// output (the part before " | ") this handler reproduces character by character.
// Needs the cachex verif hooks and the build tags "verif cachexhooks".
//
//	c06s ord=fixed|orig par=P cap=C nsh=N keys=n init=<setup> progs=<p0;p1;...> sched=<item,...>
//	  ord is for the model only.  One cache without job goroutines, ticker and finalizer per case
//	  (expire 1 h, error expire 20 min, job channel of capacity C).  Key index i is the int key
//	  (i mod N) + shardCount*(i / N): it lives in the real shard i mod N, so the logical shards of
//	  the model are the real shards 0..N-1.
//	  init: as c04s (L<k>, S<k>:<v>:<e>, F:<v>:<e>, B<fid>:<secs>), run without yields.
//	  progs: one program per CLIENT thread, ops '.'-separated: L<k> Load -> f<id>, G<k> Get2 ->
//	  <v>:<e>, S<k>:<v>:<e> Set -> -, W Future.Get2() of the future this thread's last Load
//	  returned -> <v>:<e> (no Load before: "-" at once).
//	  Logical threads: the clients, then P WORKER threads: a loop that is "in select" (site 101);
//	  job branch: VerifTakeJob, site 100 (loader running), loader result 9,nil (item w<j>) or
//	  nil,"e3" (item w<j>e), VerifSetValue (sites 7, 8), back in select; tick branch (item w<j>t,
//	  only while a tick is pending): VerifSweep, parked at the yields of the real shards 0..N-1
//	  and running through the yields of all other shards, then back in select.
//	  sched items: <i> client i | w<j> w<j>e w<j>t worker j | k the ticker fires | a<secs> the
//	  clock advances (emulated by back-dating, as c04s).
//	  A thread is disabled: before Lock() of a shard mutex that is held (ground truth: TryLock on
//	  the real sync.Mutex), before sendJob while the channel is full, before wg.Wait() of an
//	  incomplete future, a worker in select whose branch is not ready, a thread that is HUNG.
//	  HUNG: the scheduler of this file watches the goroutine of the thread it has resumed; when
//	  that goroutine blocks inside the library at a place without a yield point (never on the
//	  library as it is, but e.g. a Load that sends to the full channel while it holds the shard
//	  lock) the step's event is hung:<where> and the thread is disabled until another thread's
//	  step unblocks it (its next event is then delivered by its next step).
//	Output: steps=<obs>;... fin=<item>:<obs>;... end=ok|stuck:<threads>|queue
//	  [blocked=<thread>@<where>,... held=<shards whose mutex is held>]   (only when end=stuck)
//	  obs = <ev>/q<queue length>/k<tick pending>/m<map entry per key>/<per future: <done><pred>>,...

const (
	lvSiteLoaded = 100
	lvSiteSelect = 101
)

const (
	lvYield = iota
	lvRet
	lvPanic
	lvHungEv
)

// what a goroutine reports at the end of a step
type lvEvent struct {
	kind   int
	site   int
	val    string
	fut    *cachex.Future // yFW: the wait target; r of a Load: the result; yLD: the job; ySEL after setValue: the completed future
	isLoad bool
	shard  int // yields of a sweep: the real shard index
}

type lvOp struct {
	kind byte // L G S W
	key  int
	v, e int
}

type lvThread struct {
	name   string // "<i>" | "w<j>"
	worker bool
	ops    []lvOp
	gid    uint64
	resume chan struct{}
	report chan lvEvent
	quit   chan struct{}

	// written by the scheduler before a resume, read by the goroutine after it
	branch byte // worker in select: 't' = the tick branch
	loadV  any  // worker at yLD: the loader's result
	loadE  error

	// touched by the thread's own goroutine only
	gSweep bool
	gLocks int

	// scheduler-side bookkeeping (scheduler goroutine only)
	pc      int // clients: index of the current / next op
	site    int // site the thread is parked at (clients: 0 = between calls; workers: 101 = in select)
	shard   int // workers inside a sweep: real shard index of the last yield
	dead    bool
	hung    bool
	where   string
	early   *lvEvent
	wait    *cachex.Future
	retFut  *cachex.Future
	jobFut  *cachex.Future
	pending int // seconds of back-dating owed by a time stamp that is not visible yet
}

type lvCase struct {
	c        cachex.Cache
	n        int // keys
	nsh      int
	cap      int
	par      int
	shards   int // real shard count
	mus      []*sync.Mutex
	futs     []*cachex.Future
	ids      map[*cachex.Future]int
	complete map[*cachex.Future]bool
	cl       []*lvThread
	wk       []*lvThread
	all      []*lvThread
	gids     map[uint64]*lvThread
	tk       bool
	quit     chan struct{}
	ready    chan *lvThread
	dump     []byte
	// fast path of the hook: set by a sweeping worker while it is in the shards >= nsh (whose
	// yields run through); honoured only as long as no thread of the case has ever hung, i.e.
	// while the stepped thread is the only managed goroutine that can be running
	freeRun  atomic.Bool
	everHung atomic.Bool
	settled  bool
}

// number of cases abandoned because a goroutine neither reported nor blocked (busy loop)
var lvHangs int

func lvGid() uint64 {
	var buf [64]byte
	n := runtime.Stack(buf[:], false)
	var id uint64
	for _, c := range buf[len("goroutine "):n] {
		if c < '0' || c > '9' {
			break
		}
		id = id*10 + uint64(c-'0')
	}
	return id
}

// lvPark / lvParkWait: the only places where a managed goroutine waits for the scheduler (the
// hang detection recognises them by name in the goroutine's stack).
//
//go:noinline
func lvPark(th *lvThread, ev lvEvent) {
	th.report <- ev
	lvParkWait(th)
}

//go:noinline
func lvParkWait(th *lvThread) {
	select {
	case <-th.resume:
	case <-th.quit:
		runtime.Goexit() // the case is over
	}
}

func lvSiteName(site int) string {
	if site == lvSiteSelect {
		return "ySEL"
	}
	return csSiteName(site)
}

func (c *lvCase) key(i int) int { return i%c.nsh + c.shards*(i/c.nsh) }

func (c *lvCase) keyOf(s string) int {
	k := atoi(s)
	if k < 0 || k >= c.n {
		panic("bad key index " + s)
	}
	return k
}

// ---- future numbering (scan discipline of c04s)
func (c *lvCase) register(f *cachex.Future) {
	if f == nil {
		return
	}
	if _, ok := c.ids[f]; ok {
		return
	}
	c.ids[f] = len(c.futs)
	c.futs = append(c.futs, f)
	if done, _ := cachex.VerifFutureState(f); done {
		c.complete[f] = true // made by Set: complete before it became visible
	}
}

func (c *lvCase) preds() {
	for id := 0; id < len(c.futs); id++ {
		_, p := cachex.VerifFutureState(c.futs[id])
		c.register(p)
	}
}

func (c *lvCase) scan() {
	for i := 0; i < c.n; i++ {
		c.register(cachex.VerifPeek(c.c, c.key(i)))
	}
	c.preds()
	for _, th := range c.all {
		c.register(th.jobFut)
	}
	for _, th := range c.all {
		c.register(th.retFut)
	}
	for _, th := range c.all {
		c.register(th.wait)
	}
	c.preds()
}

func (c *lvCase) register2(f *cachex.Future) {
	c.scan()
	c.register(f)
	c.preds()
}

func (c *lvCase) fname(f *cachex.Future) string {
	if f == nil {
		return "fnil"
	}
	id, ok := c.ids[f]
	if !ok {
		return "f?"
	}
	return "f" + strconv.Itoa(id)
}

func (c *lvCase) obs(ev string) string {
	var sb strings.Builder
	sb.WriteString(ev)
	sb.WriteString("/q")
	sb.WriteString(strconv.Itoa(cachex.VerifQueueLen(c.c)))
	if c.tk {
		sb.WriteString("/k1/m")
	} else {
		sb.WriteString("/k0/m")
	}
	for i := 0; i < c.n; i++ {
		if i > 0 {
			sb.WriteByte('.')
		}
		if f := cachex.VerifPeek(c.c, c.key(i)); f == nil {
			sb.WriteByte('-')
		} else {
			sb.WriteString(strconv.Itoa(c.ids[f]))
		}
	}
	sb.WriteByte('/')
	for id, f := range c.futs {
		if id > 0 {
			sb.WriteByte(',')
		}
		done, p := cachex.VerifFutureState(f)
		if done {
			sb.WriteByte('1')
		} else {
			sb.WriteByte('0')
		}
		if p == nil {
			sb.WriteByte('-')
		} else {
			sb.WriteString(strconv.Itoa(c.ids[p]))
		}
	}
	return sb.String()
}

// ---- set-up (no yields: the hook is not installed yet)
func (c *lvCase) init(spec string) {
	for _, o := range splitNonEmpty(spec, ",") {
		switch {
		case o == "":
			panic("empty init op")
		case o[0] == 'L':
			if cachex.VerifQueueLen(c.c) >= c.cap {
				panic("init: queue full")
			}
			c.register2(c.c.Load(c.key(c.keyOf(o[1:])), csLoader))
		case o[0] == 'S':
			x, v, e := csSplit3(o)
			c.c.Set(c.key(c.keyOf(x[1:])), csValOf(v), csErrOf(e))
			c.scan()
		case o[0] == 'F':
			x, v, e := csSplit3(o)
			if x != "F" {
				panic("bad init op " + o)
			}
			_, f, ok := cachex.VerifTakeJob(c.c)
			if !ok {
				panic("init F: no job queued")
			}
			cachex.VerifSetValue(f, csValOf(v), csErrOf(e))
			c.complete[f] = true
			c.register2(f)
		case o[0] == 'B':
			p := strings.Split(o[1:], ":")
			if len(p) != 2 {
				panic("bad init op " + o)
			}
			fid := atoi(p[0])
			if fid < 0 || fid >= len(c.futs) {
				panic("init B: unknown future " + p[0])
			}
			cachex.VerifShift(c.futs[fid], time.Duration(atoi(p[1]))*time.Second)
			c.scan()
		default:
			panic("bad init op " + o)
		}
	}
}

func (c *lvCase) parseProgs(spec string) [][]lvOp {
	var progs [][]lvOp
	for _, p := range splitNonEmpty(spec, ";") {
		var ops []lvOp
		for _, o := range splitNonEmpty(p, ".") {
			switch {
			case o == "W":
				ops = append(ops, lvOp{kind: 'W'})
			case o[0] == 'L' || o[0] == 'G':
				ops = append(ops, lvOp{kind: o[0], key: c.keyOf(o[1:])})
			case o[0] == 'S':
				x, v, e := csSplit3(o)
				ops = append(ops, lvOp{kind: 'S', key: c.keyOf(x[1:]), v: v, e: e})
			default:
				panic("bad op " + o)
			}
		}
		if len(ops) == 0 {
			panic("empty program")
		}
		progs = append(progs, ops)
	}
	return progs
}

// ---- the goroutines of the logical threads
func (c *lvCase) newThread(name string, worker bool, ops []lvOp) *lvThread {
	th := &lvThread{name: name, worker: worker, ops: ops, resume: make(chan struct{}),
		report: make(chan lvEvent, 1), quit: c.quit}
	if worker {
		th.site = lvSiteSelect
	}
	c.all = append(c.all, th)
	return th
}

func (c *lvCase) runOp(op lvOp, last **cachex.Future) (ev lvEvent) {
	defer func() {
		if r := recover(); r != nil {
			ev = lvEvent{kind: lvPanic, val: fmt.Sprint(r)}
		}
	}()
	switch op.kind {
	case 'L':
		f := c.c.Load(c.key(op.key), csLoader)
		*last = f
		return lvEvent{kind: lvRet, fut: f, isLoad: true}
	case 'G':
		v, err := c.c.Get2(c.key(op.key))
		return lvEvent{kind: lvRet, val: csVal(v) + ":" + csErr(err)}
	case 'S':
		c.c.Set(c.key(op.key), csValOf(op.v), csErrOf(op.e))
		return lvEvent{kind: lvRet, val: "-"}
	default: // W
		if *last == nil {
			return lvEvent{kind: lvRet, val: "-"}
		}
		v, err := (*last).Get2()
		return lvEvent{kind: lvRet, val: csVal(v) + ":" + csErr(err)}
	}
}

func (c *lvCase) clientLoop(th *lvThread) {
	th.gid = lvGid()
	c.ready <- th
	var last *cachex.Future
	for _, op := range th.ops {
		lvParkWait(th)
		ev := c.runOp(op, &last)
		th.report <- ev
		if ev.kind == lvPanic {
			return
		}
	}
}

func (c *lvCase) workerLoop(th *lvThread) {
	th.gid = lvGid()
	c.ready <- th
	defer func() {
		if r := recover(); r != nil {
			th.report <- lvEvent{kind: lvPanic, val: fmt.Sprint(r)}
		}
	}()
	lvParkWait(th) // in select
	for {
		if th.branch == 't' {
			th.gSweep, th.gLocks = true, 0
			cachex.VerifSweep(c.c)
			th.gSweep = false
			c.freeRun.Store(false)
			lvPark(th, lvEvent{kind: lvYield, site: lvSiteSelect})
			continue
		}
		_, f, ok := cachex.VerifTakeJob(c.c)
		if !ok {
			panic("c06s: job branch taken with an empty channel")
		}
		lvPark(th, lvEvent{kind: lvYield, site: lvSiteLoaded, fut: f}) // the loader runs
		v, e := th.loadV, th.loadE
		cachex.VerifSetValue(f, v, e)
		lvPark(th, lvEvent{kind: lvYield, site: lvSiteSelect, fut: f})
	}
}

// hook is installed as cachex.VerifYield.  It identifies the calling thread by its goroutine id
// and touches that thread's own fields and channels only.
func (c *lvCase) hook(site int) {
	if c.freeRun.Load() && !c.everHung.Load() {
		return
	}
	th := c.gids[lvGid()]
	if th == nil {
		return // not a logical thread of this case: run through
	}
	ev := lvEvent{kind: lvYield, site: site}
	if th.gSweep {
		if site == cachex.VerifSiteBeforeLock {
			th.gLocks++
		}
		if th.gLocks-1 >= c.nsh {
			c.freeRun.Store(true)
			return // shards no key of the case lives in
		}
		ev.shard = th.gLocks - 1
	}
	if site == cachex.VerifSiteFutureWait {
		ev.fut = cachex.VerifWaiting
	}
	lvPark(th, ev)
}

// ---- ground truth about the shard mutexes
func lvShardMutexes(c cachex.Cache, n int) []*sync.Mutex {
	impl := reflect.ValueOf(c).Elem().Field(0).Elem() // *wrapper -> wrapper -> *cacheImpl -> cacheImpl
	futs := impl.FieldByName("futures")
	if !futs.IsValid() || futs.Len() < n {
		panic("c06s: cacheImpl.futures not found")
	}
	var mus []*sync.Mutex
	for i := 0; i < n; i++ {
		cf := futs.Index(i).Elem()
		f0 := cf.Field(0)
		if f0.Type() != reflect.TypeOf(sync.Mutex{}) {
			panic("c06s: field 0 of cacheFuture is not a sync.Mutex")
		}
		mus = append(mus, (*sync.Mutex)(unsafe.Pointer(f0.UnsafeAddr())))
	}
	return mus
}

// held: every other goroutine is parked or blocked, so this is deterministic
func (c *lvCase) held(sh int) bool {
	if sh < 0 || sh >= len(c.mus) {
		return false
	}
	mu := c.mus[sh]
	if mu.TryLock() {
		mu.Unlock()
		return false
	}
	return true
}

// ---- watching goroutines
var lvBlockedStates = []string{"select", "chan send", "chan receive", "semacquire", "sync.Mutex.Lock",
	"sync.RWMutex", "sync.WaitGroup.Wait", "sync.Cond.Wait"}

func (c *lvCase) stacks() []byte {
	if c.dump == nil {
		c.dump = make([]byte, 1<<18)
	}
	for {
		n := runtime.Stack(c.dump, true)
		if n < len(c.dump) {
			return c.dump[:n]
		}
		c.dump = make([]byte, 2*len(c.dump))
	}
}

// lvBlockedInLib: is goroutine gid blocked (channel, mutex, wait group) outside lvPark?
func lvBlockedInLib(dump []byte, gid uint64) (bool, string) {
	pat := []byte("goroutine " + strconv.FormatUint(gid, 10) + " [")
	at := -1
	for i := 0; i < len(dump); {
		j := bytes.Index(dump[i:], pat)
		if j < 0 {
			break
		}
		j += i
		if j == 0 || dump[j-1] == '\n' {
			at = j
			break
		}
		i = j + 1
	}
	if at < 0 {
		return false, ""
	}
	rest := dump[at+len(pat):]
	k := bytes.IndexByte(rest, ']')
	if k < 0 {
		return false, ""
	}
	state := string(rest[:k])
	block := rest
	if e := bytes.Index(rest, []byte("\n\n")); e >= 0 {
		block = rest[:e]
	}
	ok := false
	for _, s := range lvBlockedStates {
		if strings.HasPrefix(state, s) {
			ok = true
		}
	}
	if !ok || bytes.Contains(block, []byte("lvPark")) {
		return false, ""
	}
	switch {
	case bytes.Contains(block, []byte("sendJob")):
		return true, "sendJob"
	case bytes.Contains(block, []byte("Mutex).Lock")):
		return true, "Lock"
	case bytes.Contains(block, []byte("WaitGroup).Wait")):
		return true, "Wait"
	}
	return true, "lib"
}

// settle waits until every thread of ws has reported an event or is blocked inside the library.
// Soundness: "reported" is read BEFORE the snapshot of all goroutine states, so at the instant of
// the snapshot no thread of ws was running: nothing can unblock the blocked ones any more.
func (c *lvCase) settle(ws []*lvThread) bool {
	delay := 100 * time.Microsecond
	deadline := time.Now().Add(10 * time.Second)
	reported := make([]bool, len(ws))
	for {
		need := false
		for i, w := range ws {
			reported[i] = len(w.report) > 0
			if !reported[i] {
				need = true
			}
		}
		if !need {
			return true
		}
		dump := c.stacks()
		all := true
		for i, w := range ws {
			if reported[i] {
				continue
			}
			b, where := lvBlockedInLib(dump, w.gid)
			if !b {
				all = false
				break
			}
			w.where = where
		}
		if all {
			return true
		}
		if time.Now().After(deadline) {
			return false
		}
		time.Sleep(delay)
		if delay *= 2; delay > 5*time.Millisecond {
			delay = 5 * time.Millisecond
		}
	}
}

func (c *lvCase) hungThreads() []*lvThread {
	var hs []*lvThread
	for _, th := range c.all {
		if th.hung {
			hs = append(hs, th)
		}
	}
	return hs
}

// await: the event of the step of th, whose goroutine has just been resumed
func (c *lvCase) await(th *lvThread) (lvEvent, bool) {
	hs := c.hungThreads()
	if len(hs) == 0 {
		t := time.NewTimer(200 * time.Microsecond)
		select {
		case ev := <-th.report:
			t.Stop()
			return ev, true
		case <-t.C:
		}
	}
	if !c.settle(append(hs, th)) {
		return lvEvent{}, false
	}
	c.settled = true // the hung threads are settled too (same snapshot): afterItem need not wait again
	if len(th.report) > 0 {
		return <-th.report, true
	}
	return lvEvent{kind: lvHungEv, val: th.where}, true
}

// afterItem: hung threads that another thread's step has unblocked have run on to their next
// yield (or return); their event is kept for their next step.
func (c *lvCase) afterItem() bool {
	hs := c.hungThreads()
	if len(hs) == 0 {
		return true
	}
	if !c.settled && !c.settle(hs) {
		return false
	}
	c.settled = false
	for _, h := range hs {
		if len(h.report) > 0 {
			ev := <-h.report
			h.hung = false
			h.early = &ev
		}
	}
	return true
}

// ---- the scheduler
func (c *lvCase) clientDone(th *lvThread) bool {
	return th.dead || (th.site == 0 && th.pc >= len(th.ops) && !th.hung && th.early == nil)
}

func (c *lvCase) inSelect(th *lvThread) bool {
	return !th.dead && !th.hung && th.early == nil && th.site == lvSiteSelect
}

// blocked: the Blocked predicate; suffix = 't' when the item chooses the tick branch
func (c *lvCase) blocked(th *lvThread, suffix byte) bool {
	if th.hung || th.dead {
		return true
	}
	if th.early != nil {
		return false
	}
	if th.worker && th.site == lvSiteSelect {
		if suffix == 't' {
			return !c.tk
		}
		return cachex.VerifQueueLen(c.c) == 0
	}
	switch th.site {
	case cachex.VerifSiteBeforeLock:
		if th.worker {
			return c.held(th.shard)
		}
		return c.held(th.ops[th.pc].key % c.nsh)
	case cachex.VerifSiteSendJob:
		return cachex.VerifQueueLen(c.c) >= c.cap
	case cachex.VerifSiteFutureWait:
		return !c.complete[th.wait]
	}
	return false
}

func (c *lvCase) inSet(th *lvThread) bool {
	return !th.worker && th.pc < len(th.ops) && th.ops[th.pc].kind == 'S'
}

// step: one step of th (nil = no such thread); suffix: 0, 'e' or 't'
func (c *lvCase) step(th *lvThread, suffix byte) (string, bool) {
	if th == nil || (!th.worker && c.clientDone(th)) {
		return c.obs("done"), true
	}
	if c.blocked(th, suffix) {
		return c.obs("blocked"), true
	}
	prev := th.site
	var ev lvEvent
	ran := false
	if th.early != nil {
		ev, th.early = *th.early, nil
	} else {
		ran = true
		if th.worker {
			switch prev {
			case lvSiteSelect:
				th.branch = suffix
				if suffix == 't' {
					c.tk = false
				} else {
					th.branch = 0
				}
			case lvSiteLoaded:
				if suffix == 'e' {
					th.loadV, th.loadE = nil, csErrOf(3)
				} else {
					th.loadV, th.loadE = 9, nil
				}
			}
		}
		c.settled = false
		th.resume <- struct{}{}
		var ok bool
		if ev, ok = c.await(th); !ok {
			return "HANG", false
		}
	}
	wasSet := c.inSet(th)
	var setFut *cachex.Future
	var name string
	switch ev.kind {
	case lvHungEv:
		th.hung = true
		c.everHung.Store(true)
		name = "hung:" + ev.val
	case lvYield:
		th.site = ev.site
		th.shard = ev.shard
		switch ev.site {
		case cachex.VerifSiteFutureWait:
			th.wait = ev.fut
		case lvSiteLoaded:
			th.jobFut = ev.fut
		}
	case lvRet:
		th.site = 0
		if ev.isLoad {
			th.retFut = ev.fut
		}
	case lvPanic:
		th.dead = true
		name = "panic:" + csClean(ev.val)
	}
	if ev.kind != lvHungEv {
		if prev == cachex.VerifSiteStoreUpdateTime && th.worker && th.pending > 0 {
			// the worker has published the time stamp it had read before the clock advanced
			cachex.VerifShift(th.jobFut, time.Duration(th.pending)*time.Second)
			th.pending = 0
		}
		if prev == cachex.VerifSiteStorePredecessor && wasSet {
			// Set has put its future into the map within this step (it still held the mutex)
			setFut = cachex.VerifPeek(c.c, c.key(th.ops[th.pc].key))
		}
	}
	c.scan()
	if ev.kind != lvHungEv && prev == cachex.VerifSiteStorePredecessor && wasSet {
		if setFut != nil && th.pending > 0 {
			cachex.VerifShift(setFut, time.Duration(th.pending)*time.Second)
		}
		th.pending = 0
	}
	switch ev.kind {
	case lvYield:
		name = lvSiteName(ev.site)
		if ev.site == cachex.VerifSiteFutureWait {
			name += ":" + c.fname(th.wait)
		}
		if ev.site == lvSiteSelect && ev.fut != nil {
			c.complete[ev.fut] = true // wg.Done() has run
		}
	case lvRet:
		if ev.isLoad {
			name = "r:" + c.fname(ev.fut)
		} else {
			name = "r:" + ev.val
		}
		th.pc++
	}
	if ran && !c.afterItem() {
		return c.obs(name), false
	}
	return c.obs(name), true
}

func (c *lvCase) fire() string {
	c.tk = true // no library code runs: no hung thread can have been released
	return c.obs("env")
}

func (c *lvCase) advance(secs int) string {
	d := time.Duration(secs) * time.Second
	for _, f := range c.futs {
		cachex.VerifShift(f, d) // no-op while the future has no time stamp
	}
	for _, th := range c.all {
		if th.hung || th.dead || th.early != nil {
			continue
		}
		switch {
		case th.site == cachex.VerifSiteStoreUpdateTime:
			th.pending += secs
		case th.site == cachex.VerifSiteStorePredecessor && c.inSet(th):
			th.pending += secs // time stamp stored, but the future is not visible yet
		}
	}
	c.scan()
	return c.obs("env")
}

// item: one schedule item -> observation
func (c *lvCase) item(it string) (string, bool) {
	if it == "" {
		panic("empty schedule item")
	}
	switch it[0] {
	case 'k':
		if it != "k" {
			panic("bad schedule item " + it)
		}
		return c.fire(), true
	case 'a':
		secs := atoi(it[1:])
		if secs < 0 {
			return c.obs("blocked"), true
		}
		return c.advance(secs), true
	case 'w':
		var suffix byte
		num := it[1:]
		if n := len(num); n > 0 && (num[n-1] == 't' || num[n-1] == 'e') {
			suffix = num[n-1]
			num = num[:n-1]
		}
		j := atoi(num)
		if j < 0 || j >= len(c.wk) {
			return c.step(nil, 0)
		}
		return c.step(c.wk[j], suffix)
	}
	i := atoi(it)
	if i < 0 || i >= len(c.cl) {
		return c.step(nil, 0)
	}
	return c.step(c.cl[i], 0)
}

// finItem: the step the completion phase lets thread number j take ("" = none)
func (c *lvCase) finItem(j int) string {
	if j < len(c.cl) {
		th := c.cl[j]
		if c.clientDone(th) || c.blocked(th, 0) {
			return ""
		}
		return th.name
	}
	th := c.wk[j-len(c.cl)]
	if !c.blocked(th, 0) {
		return th.name
	}
	if !c.blocked(th, 't') {
		return th.name + "t"
	}
	return ""
}

// position of an unfinished thread for the blocked= token
func (c *lvCase) whereIs(th *lvThread) string {
	switch {
	case th.dead:
		return "dead"
	case th.hung:
		return "hung:" + th.where
	case th.site == cachex.VerifSiteFutureWait:
		return "yFW:" + c.fname(th.wait)
	case th.site == cachex.VerifSiteBeforeLock:
		sh := th.shard
		if !th.worker {
			sh = th.ops[th.pc].key % c.nsh
		}
		return "yBL:s" + strconv.Itoa(sh)
	case th.site == 0:
		return "idle"
	}
	return lvSiteName(th.site)
}

// cleanup: parked goroutines exit.  Goroutines blocked inside the library would leak (and make
// every later snapshot of the goroutine states more expensive), so the job channel of the
// abandoned cache is drained: a goroutine blocked in sendJob gets through, runs on without
// yields (the hook is gone) and exits at its next park; what is blocked for another reason leaks.
func (c *lvCase) cleanup() {
	cachex.VerifYield = nil
	close(c.quit)
	if !c.everHung.Load() {
		return
	}
	for round := 0; round < 8; round++ {
		n := 0
		for {
			if _, _, ok := cachex.VerifTakeJob(c.c); !ok {
				break
			}
			n++
		}
		if n == 0 && round >= 2 {
			break
		}
		time.Sleep(20 * time.Microsecond)
	}
}

func runC06s(toks []string) string {
	if lvHangs >= 3 {
		return "steps= HANG"
	}
	m := kv(toks[1:])
	c := &lvCase{
		n:        atoi(m["keys"]),
		nsh:      atoi(m["nsh"]),
		cap:      atoi(m["cap"]),
		par:      atoi(m["par"]),
		shards:   cachex.VerifShardCount(),
		ids:      map[*cachex.Future]int{},
		complete: map[*cachex.Future]bool{},
		gids:     map[uint64]*lvThread{},
		quit:     make(chan struct{}),
	}
	if c.n < 0 || c.n > 1024 || c.cap < 1 || c.par < 0 || c.par > 64 {
		panic("bad configuration")
	}
	if c.nsh < 1 || c.nsh > c.shards {
		panic(fmt.Sprintf("nsh=%d, but the cache has %d shards", c.nsh, c.shards))
	}
	for i := 0; i < c.n; i++ {
		if cachex.VerifShardIndex(c.key(i)) != i%c.nsh {
			panic(fmt.Sprintf("key %d is not in shard %d", c.key(i), i%c.nsh))
		}
	}
	cachex.VerifYield = nil
	c.c = cachex.VerifNewCacheNoWorkers(cachex.WithExpire(time.Hour, 20*time.Minute), cachex.WithJobChanSize(c.cap))
	c.mus = lvShardMutexes(c.c, c.nsh)
	c.init(m["init"])

	progs := c.parseProgs(m["progs"])
	for i, ops := range progs {
		c.cl = append(c.cl, c.newThread(strconv.Itoa(i), false, ops))
	}
	for j := 0; j < c.par; j++ {
		c.wk = append(c.wk, c.newThread("w"+strconv.Itoa(j), true, nil))
	}
	c.ready = make(chan *lvThread, len(c.all))
	for _, th := range c.all {
		if th.worker {
			go c.workerLoop(th)
		} else {
			go c.clientLoop(th)
		}
	}
	for range c.all {
		th := <-c.ready
		c.gids[th.gid] = th
	}
	cachex.VerifYield = c.hook
	defer c.cleanup()

	var sb strings.Builder
	sb.WriteString("steps=")
	for i, it := range splitNonEmpty(m["sched"], ",") {
		if i > 0 {
			sb.WriteByte(';')
		}
		o, ok := c.item(it)
		sb.WriteString(o)
		if !ok {
			lvHangs++
			return sb.String() + " HANG"
		}
	}
	sb.WriteString(" fin=")
	first := true
	finished := false
	for n := 0; n < 4096 && !finished; n++ {
		progressed := false
		for j := 0; j < len(c.all); j++ {
			it := c.finItem(j)
			if it == "" {
				continue
			}
			o, ok := c.item(it)
			if !first {
				sb.WriteByte(';')
			}
			first = false
			sb.WriteString(it + ":" + o)
			if !ok {
				lvHangs++
				return sb.String() + " HANG"
			}
			progressed = true
		}
		if !progressed {
			finished = true
		}
	}
	if !finished {
		return sb.String() + " LIVELOCK"
	}
	var stuck, where []string
	for _, th := range c.cl {
		if !c.clientDone(th) {
			stuck = append(stuck, th.name)
			where = append(where, th.name+"@"+c.whereIs(th))
		}
	}
	for _, th := range c.wk {
		if !c.inSelect(th) {
			stuck = append(stuck, th.name)
			where = append(where, th.name+"@"+c.whereIs(th))
		}
	}
	switch {
	case len(stuck) > 0:
		var held []string
		for sh := range c.mus {
			if c.held(sh) {
				held = append(held, strconv.Itoa(sh))
			}
		}
		return sb.String() + " end=stuck:" + strings.Join(stuck, ",") + " blocked=" + strings.Join(where, ",") +
			" held=" + strings.Join(held, ",")
	case cachex.VerifQueueLen(c.c) != 0:
		return sb.String() + " end=queue"
	}
	return sb.String() + " end=ok"
}

func init() {
	register("c06s", runC06s)
	// c06sinfo -> shards=<number of real shards> (the upper bound of nsh on this machine)
	register("c06sinfo", func([]string) string { return "shards=" + strconv.Itoa(cachex.VerifShardCount()) })
}
