package main

// C16, callbacks that leave Close abnormally (monitor-only stream, no timing involved):
//
//   c16x mode=goexit|panicnil|panic|error init=0|1
//
// One Close whose callback ends by runtime.Goexit() (what t.Fatal / t.FailNow do inside a callback), by
// panic(nil) with GODEBUG=panicnil=1 (recover() returns nil for it), by an ordinary panic, or by returning
// an error; init=1: C() was called before. Then, from another goroutine: IsClosed(), the channel(s) returned
// by C() before and after, WaitUtil(1 h), and a second Close with a callback of its own (must not run).
// Output: closed=<b> before=<b|-> after=<b> wait=<b> cb1=<n> cb2=<n>

import (
	"fmt"
	"os"
	"runtime"
	"time"

	"github.com/lixianmin/got/loom"
)

func chanClosed(c chan struct{}) bool {
	select {
	case <-c:
		return true
	default:
		return false
	}
}

func init() {
	register("c16x", func(toks []string) string {
		m := kv(toks[1:])
		loom.VerifYield = nil
		var wc loom.WaitClose
		var before chan struct{}
		if m["init"] == "1" {
			before = wc.C()
		}
		cb1, cb2 := 0, 0
		if m["mode"] == "panicnil" {
			old := os.Getenv("GODEBUG")
			os.Setenv("GODEBUG", "panicnil=1")
			defer os.Setenv("GODEBUG", old)
		}
		done := make(chan struct{})
		go func() {
			defer close(done)
			wc.Close(func() error {
				cb1++
				switch m["mode"] {
				case "goexit":
					runtime.Goexit()
				case "panicnil":
					panic(nil)
				case "panic":
					panic("callback failed")
				case "error":
					return fmt.Errorf("callback error")
				}
				return nil
			})
		}()
		select {
		case <-done:
		case <-time.After(20 * time.Second):
			return "HANG first Close"
		}
		res := make(chan string, 1)
		go func() {
			closed := wc.IsClosed()
			after := wc.C()
			b := "-"
			if before != nil {
				b = fmt.Sprint(chanClosed(before))
			}
			a := after != nil && chanClosed(after)
			w := a && wc.WaitUtil(time.Hour) // an open channel would make this wait for the whole hour
			wc.Close(func() error { cb2++; return nil })
			res <- fmt.Sprintf("closed=%v before=%s after=%v wait=%v cb1=%d cb2=%d", closed, b, a, w, cb1, cb2)
		}()
		select {
		case r := <-res:
			return r
		case <-time.After(20 * time.Second):
			return "HANG after the first Close returned"
		}
	})
}
