//go:build !cachexhooks

package main

// The cachex schedule cases (c04s) need the cachex verif hooks (tools/hooks/
// cachex-verif-hooks.patch); without them the tag is answered NOHOOKS.
func init() {
	register("c04s", func([]string) string { return "NOHOOKS" })
}
