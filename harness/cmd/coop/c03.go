package main

import (
	"fmt"
	"runtime"
	"sort"
	"strconv"
	"strings"
	"sync"
	"sync/atomic"
	"time"

	"github.com/lixianmin/got/loom"
	"verif/harness/internal/coop"
)

// Wheel cases (C03).
//
//   c03 step=<ns> n=<buckets> ticks=<k> progs=N0.R;A7200000000000 sched=0,1,1,0
//     thread 0 is the ticker: k calls of wheel.VerifTick() (one onTicker each; the real
//     ticker never fires because step is huge). Threads 1.. are requesters, one program per
//     thread (';'), operations separated by '.':  N<d> timer := wheel.NewTimer(d),
//     R timer.Reset(), R<x> timer.Reset(x), A<d> wheel.AfterFunc(d, callback).
//     Output: steps=<event per scheduled step> fin=<tid:event round-robin completion>
//             reqs=<tid>.<op>:<k0>:<k1>:<cret>:<obs>,...
//     k0 = ticks completed when the call was invoked, k1 = ticks started when it returned,
//     cret = ticks completed when it returned (all counted from the ticker thread's own
//     events), obs = f<g>  the timer channel became ready at the close step of tick g
//                  | e     it was already ready when the call returned
//                  | x<j>  it became ready at step j which is not a tick's close step
//                  | never not ready after n more ticks
//                  | cb<c>/cbnever  AfterFunc: callback seen after c completed ticks
//                  | panic the call panicked
//     after the completion phase n more ticks run so that every obtained channel fires.
//   c03idx step=<ns> n=<buckets> pre=<p> d=<ns>
//     no interleaving: p ticks, then NewTimer(d), then ticks until the channel is ready.
//     Output: new=panic | fetch=panic | fire=<g> (number of the tick that made it ready) | fire=never
//     With probe=1 (small steps: the real ticker would interfere) only NewWheel + NewTimer
//     run and the output is new=panic | fetch=panic | fetch=ok.
//   c03rt step_ms=<s> n=<buckets> ds=<d1,d2,..> (ms) gap_us=<g>
//     real-time smoke run on the real ticker: output rt=<d_ms>:<elapsed_us>,... dbl=<n>

var cbTimeouts int

type wreq struct {
	tid, op      int
	k0, k1, cret int
	timer        *loom.WheelTimer // the thread's timer after the call (nil for AfterFunc)
	ch           <-chan struct{}
	after        bool
	cbCount      *int32
	cbStamp      *int32
	ready        bool
	obs          string
	returned     bool
}

// evs renders an event as one token (panic messages contain spaces).
func evs(ev coop.Event) string { return strings.NewReplacer(" ", "_", ",", "_").Replace(ev.String()) }

func isReady(ch <-chan struct{}) bool {
	select {
	case <-ch:
		return true
	default:
		return false
	}
}

type wheelRun struct {
	w       *loom.Wheel
	s       *coop.Sched
	reqs    []*wreq
	cur     map[int]*wreq
	started int
	closed  int32
	stamp   int32 // atomic, read by AfterFunc callbacks: number of the tick whose close step is running or was the last to complete
	stepNo  int
	timers  map[int]*loom.WheelTimer
	empty   map[int]bool // threads without any operation (coop would block on them)
}

func (r *wheelRun) enabled(tid int) bool { return !r.empty[tid] && r.s.Enabled(tid) }

func (r *wheelRun) poll(closeStep bool) {
	for _, q := range r.reqs {
		if q.after || !q.returned || q.ready || q.obs == "panic" {
			continue
		}
		if isReady(q.ch) {
			q.ready = true
			if closeStep {
				q.obs = "f" + strconv.Itoa(int(r.closed))
			} else {
				q.obs = "x" + strconv.Itoa(r.stepNo)
			}
		}
	}
	// a ready channel stays ready
	for _, q := range r.reqs {
		if !q.after && q.ready && !isReady(q.ch) {
			q.obs = "unready" + strconv.Itoa(r.stepNo)
		}
	}
}

func (r *wheelRun) pendingCallbacks() bool {
	for _, q := range r.reqs {
		if q.after && q.returned && q.obs != "panic" && atomic.LoadInt32(q.cbCount) == 0 {
			return true
		}
	}
	return false
}

// step executes one step of tid and keeps the counters / observations.
func (r *wheelRun) step(tid int) coop.Event {
	boundary := tid >= 0 && tid < len(r.s.Threads) && r.s.Threads[tid].AtSite == 0
	closedBefore := int(r.closed)
	if r.empty[tid] {
		return coop.Event{Kind: coop.KDone}
	}
	if tid == 0 && !boundary && r.s.Threads[0].AtSite == loom.VerifSiteWheelTickClose {
		atomic.StoreInt32(&r.stamp, r.closed+1)
	}
	ev := r.s.Step(tid)
	if ev.Kind == coop.KDone || ev.Kind == coop.KBlocked {
		return ev
	}
	r.stepNo++
	closeStep := false
	if tid == 0 {
		if boundary {
			r.started++
		}
		if ev.Kind == coop.KRet {
			r.closed++
			closeStep = true
		}
	} else {
		q := r.cur[tid]
		if boundary && q != nil {
			q.k0 = closedBefore
		}
		if q != nil && ev.Kind == coop.KRet {
			q.k1 = r.started
			q.cret = int(r.closed)
			q.returned = true
			if !q.after && isReady(q.ch) {
				q.ready = true
				q.obs = "e"
			}
		}
		if q != nil && ev.Kind == coop.KPanic {
			q.obs = "panic"
			q.returned = true
		}
	}
	r.poll(closeStep)
	if closeStep && r.pendingCallbacks() {
		for i := 0; i < 200 && r.pendingCallbacks(); i++ {
			runtime.Gosched()
		}
	}
	return ev
}

func (r *wheelRun) progs(spec string, ticks int) [][]coop.Op {
	var progs [][]coop.Op
	var tick []coop.Op
	for i := 0; i < ticks; i++ {
		tick = append(tick, func() string { r.w.VerifTick(); return "tick" })
	}
	progs = append(progs, tick)
	for ti, p := range strings.Split(spec, ";") {
		tid := ti + 1
		var ops []coop.Op
		for oi, o := range splitNonEmpty(p, ".") {
			o := o
			q := &wreq{tid: tid, op: oi, obs: "never"}
			r.reqs = append(r.reqs, q)
			switch {
			case strings.HasPrefix(o, "N"):
				d := time.Duration(atoi(o[1:]))
				ops = append(ops, func() string {
					r.cur[tid] = q
					t := r.w.NewTimer(d)
					r.timers[tid] = t
					q.ch = t.C
					return "req"
				})
			case strings.HasPrefix(o, "R"):
				ops = append(ops, func() string {
					r.cur[tid] = q
					t := r.timers[tid]
					if t == nil {
						panic("bad program: Reset without timer")
					}
					if len(o) > 1 {
						t.Reset(time.Duration(atoi(o[1:])))
					} else {
						t.Reset()
					}
					q.ch = t.C
					return "req"
				})
			case strings.HasPrefix(o, "A"):
				d := time.Duration(atoi(o[1:]))
				q.after = true
				q.obs = "cbnever"
				q.cbCount = new(int32)
				q.cbStamp = new(int32)
				ops = append(ops, func() string {
					r.cur[tid] = q
					r.w.AfterFunc(d, func() {
						atomic.StoreInt32(q.cbStamp, atomic.LoadInt32(&r.stamp))
						atomic.AddInt32(q.cbCount, 1)
					})
					return "req"
				})
			default:
				panic("bad op " + o)
			}
		}
		progs = append(progs, ops)
	}
	return progs
}

// The op closures set r.cur[tid] when the op starts running, but step() needs the request
// at the invocation step (before Step returns); since the closure runs inside that very
// Step, r.cur[tid] is up to date when Step returns.

func init() {
	register("c03", func(toks []string) string {
		m := kv(toks[1:])
		n := atoi(m["n"])
		r := &wheelRun{cur: map[int]*wreq{}, timers: map[int]*loom.WheelTimer{}}
		r.w = loom.NewWheel(time.Duration(atoi(m["step"])), n)
		defer r.w.Close()
		progs := r.progs(m["progs"], atoi(m["ticks"]))
		r.empty = map[int]bool{}
		for i, p := range progs {
			if len(p) == 0 {
				r.empty[i] = true
			}
		}
		r.s = coop.New(progs)
		// only the wheel's own yield sites are scheduled: the wheel's goLoop goroutine (unmanaged,
		// started by NewWheel) passes WaitClose yield sites at an arbitrary moment
		loom.VerifYield = func(site int) {
			if site >= loom.VerifSiteWheelFetchLoadPosition && site <= loom.VerifSiteWheelTickClose {
				r.s.Yield(site)
			}
		}
		defer func() { loom.VerifYield = nil }()
		var sb strings.Builder
		sb.WriteString("steps=")
		for i, tid := range intList(m["sched"]) {
			if i > 0 {
				sb.WriteByte(',')
			}
			sb.WriteString(evs(r.step(tid)))
		}
		sb.WriteString(" fin=")
		first := true
		live := false
		for k := 0; k < 4096; k++ {
			progressed := false
			for i := range r.s.Threads {
				if r.enabled(i) {
					ev := r.step(i)
					if !first {
						sb.WriteByte(',')
					}
					first = false
					sb.WriteString(strconv.Itoa(i) + ":" + evs(ev))
					progressed = true
				}
			}
			if !progressed {
				live = true
				break
			}
		}
		if !live {
			return sb.String() + " LIVELOCK"
		}
		// n more ticks, no interleaving, so that every obtained channel fires
		tickerDead := len(r.s.Threads) > 0 && !r.enabled(0) && r.started != int(r.closed)
		if !tickerDead {
			for k := 0; k < n; k++ {
				atomic.StoreInt32(&r.stamp, r.closed+1)
				r.w.VerifTick()
				r.started++
				r.closed++
				r.stepNo++
				r.poll(true)
				for i := 0; i < 200 && r.pendingCallbacks(); i++ {
					runtime.Gosched()
				}
			}
		}
		// callbacks: wait (bounded) for the goroutines of AfterFunc
		// (5 s once; after a callback failed to arrive in time the budget per case drops to 20 ms,
		// so that a tree whose AfterFunc goroutine never gets its channel cannot stall the run)
		budget := 5 * time.Second
		if cbTimeouts > 0 {
			budget = 20 * time.Millisecond
		}
		deadline := time.Now().Add(budget)
		for r.pendingCallbacks() && time.Now().Before(deadline) && !tickerDead {
			time.Sleep(50 * time.Microsecond)
		}
		if r.pendingCallbacks() && !tickerDead {
			cbTimeouts++
		}
		for _, q := range r.reqs {
			if q.after && q.obs != "panic" {
				switch c := atomic.LoadInt32(q.cbCount); {
				case c == 1:
					q.obs = "cb" + strconv.Itoa(int(atomic.LoadInt32(q.cbStamp)))
				case c > 1:
					q.obs = "cbmany"
				}
			}
		}
		sort.SliceStable(r.reqs, func(a, b int) bool {
			if r.reqs[a].tid != r.reqs[b].tid {
				return r.reqs[a].tid < r.reqs[b].tid
			}
			return r.reqs[a].op < r.reqs[b].op
		})
		var rs []string
		for _, q := range r.reqs {
			if !q.returned {
				continue // never invoked (thread died earlier)
			}
			if q.obs == "panic" {
				rs = append(rs, fmt.Sprintf("%d.%d:%d:panic", q.tid, q.op, q.k0))
				continue
			}
			rs = append(rs, fmt.Sprintf("%d.%d:%d:%d:%d:%s", q.tid, q.op, q.k0, q.k1, q.cret, q.obs))
		}
		return sb.String() + " reqs=" + strings.Join(rs, ",")
	})

	register("c03idx", func(toks []string) (res string) {
		m := kv(toks[1:])
		n := atoi(m["n"])
		var w *loom.Wheel
		func() {
			defer func() {
				if recover() != nil {
					res = "new=panic"
				}
			}()
			w = loom.NewWheel(time.Duration(atoi(m["step"])), n)
		}()
		if w == nil {
			return res
		}
		defer w.Close()
		probe := m["probe"] == "1"
		if !probe {
			for k := 0; k < atoi(m["pre"]); k++ {
				w.VerifTick()
			}
		}
		var t *loom.WheelTimer
		func() {
			defer func() {
				if recover() != nil {
					res = "fetch=panic"
				}
			}()
			t = w.NewTimer(time.Duration(atoi(m["d"])))
		}()
		if t == nil {
			return res
		}
		if probe {
			return "fetch=ok"
		}
		if isReady(t.C) {
			return "fire=early"
		}
		for k := 1; k <= n+1; k++ {
			w.VerifTick()
			if isReady(t.C) {
				return "fire=" + strconv.Itoa(atoi(m["pre"])+k)
			}
		}
		return "fire=never"
	})

	register("c03rt", func(toks []string) string {
		m := kv(toks[1:])
		step := time.Duration(atoi(m["step_ms"])) * time.Millisecond
		w := loom.NewWheel(step, atoi(m["n"]))
		defer w.Close()
		gap := time.Duration(atoi(m["gap_us"])) * time.Microsecond
		ds := intList(m["ds"])
		out := make([]string, len(ds))
		var wg sync.WaitGroup
		var dbl int32
		for i, d := range ds {
			i, d := i, d
			time.Sleep(gap)
			wg.Add(1)
			if i%3 == 2 {
				t0 := time.Now()
				var cnt int32
				w.AfterFunc(time.Duration(d)*time.Millisecond, func() {
					el := time.Since(t0)
					if atomic.AddInt32(&cnt, 1) > 1 {
						atomic.AddInt32(&dbl, 1)
						return
					}
					out[i] = fmt.Sprintf("%d:%d", d, el.Microseconds())
					wg.Done()
				})
			} else {
				t0 := time.Now()
				t := w.NewTimer(time.Duration(d) * time.Millisecond)
				if i%3 == 1 {
					// Reset re-arms: measure from the Reset call
					t0 = time.Now()
					t.Reset()
				}
				go func() {
					<-t.C
					out[i] = fmt.Sprintf("%d:%d", d, time.Since(t0).Microseconds())
					wg.Done()
				}()
			}
		}
		done := make(chan struct{})
		go func() { wg.Wait(); close(done) }()
		select {
		case <-done:
		case <-time.After(10 * time.Second):
			return "rt=TIMEOUT"
		}
		return "rt=" + strings.Join(out, ",") + " dbl=" + strconv.Itoa(int(atomic.LoadInt32(&dbl)))
	})
}
