//go:build !cachexhooks

package main

// The cachex liveness cases (c06s) need the cachex verif hooks (tools/hooks/
// cachex-verif-hooks.patch); without them the tag is answered NOHOOKS.
func init() {
	register("c06s", func([]string) string { return "NOHOOKS" })
	register("c06sinfo", func([]string) string { return "NOHOOKS" })
}
