package main

import (
	"strconv"
	"strings"

	"verif/harness/internal/coop"
)

// kv parses "k=v" tokens into a map (value may be empty).
func kv(toks []string) map[string]string {
	m := map[string]string{}
	for _, t := range toks {
		if i := strings.IndexByte(t, '='); i >= 0 {
			m[t[:i]] = t[i+1:]
		}
	}
	return m
}

func atoi(s string) int {
	v, err := strconv.ParseInt(s, 10, 64)
	if err != nil {
		panic("bad int " + s)
	}
	return int(v)
}

func splitNonEmpty(s, sep string) []string {
	if s == "" {
		return nil
	}
	return strings.Split(s, sep)
}

func intList(s string) []int {
	var r []int
	for _, t := range splitNonEmpty(s, ",") {
		r = append(r, atoi(t))
	}
	return r
}

// runSchedule executes sched on s and renders one event per step; then completes all
// threads round-robin (second part of the trace) so no goroutine stays parked.
func runSchedule(s *coop.Sched, sched []int) (string, bool) {
	var sb strings.Builder
	for i, tid := range sched {
		if i > 0 {
			sb.WriteByte(',')
		}
		sb.WriteString(s.Step(tid).String())
	}
	sb.WriteString(" fin=")
	first := true
	ok := false
	for n := 0; n < 4096; n++ {
		progressed := false
		for i := range s.Threads {
			if s.Enabled(i) {
				ev := s.Step(i)
				if !first {
					sb.WriteByte(',')
				}
				first = false
				sb.WriteString(strconv.Itoa(i) + ":" + ev.String())
				progressed = true
			}
		}
		if !progressed {
			ok = true
			break
		}
	}
	return sb.String(), ok
}
