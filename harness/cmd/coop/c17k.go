package main

// C17, state-word observers of loom.Mutex (Count / IsLocked / IsWoken / IsStarving) as stepped
// operations: every load of the state word has a yield point in front, the harness rewrites the word
// before each load.
//
//   c17k op=count|locked|woken|starving w=<w1>,<w2>,...
//        Output: loads=<number of state-word loads the call performed> sites=<yield sites> ret=<value>
//        The k-th load sees w_k (the last word repeats).

import (
	"strconv"
	"strings"
	"sync/atomic"

	"github.com/lixianmin/got/loom"
	"verif/harness/internal/coop"
)

func init() {
	register("c17k", func(toks []string) string {
		m := kv(toks[1:])
		ws := strings.Split(m["w"], ",")
		mu := &loom.Mutex{}
		state := mu.VerifStateWord()
		var op func() string
		switch m["op"] {
		case "count":
			op = func() string { return strconv.Itoa(mu.Count()) }
		case "locked":
			op = func() string { return strconv.FormatBool(mu.IsLocked()) }
		case "woken":
			op = func() string { return strconv.FormatBool(mu.IsWoken()) }
		case "starving":
			op = func() string { return strconv.FormatBool(mu.IsStarving()) }
		default:
			return "BADCASE"
		}
		s := coop.New([][]coop.Op{{op}})
		loom.VerifYield = s.Yield
		defer func() { loom.VerifYield = nil }()
		var sites []string
		loads := 0
		ev := s.Step(0) // invocation: parks before the first load
		for ev.Kind == coop.KYield && loads < 16 {
			k := loads
			if k >= len(ws) {
				k = len(ws) - 1
			}
			atomic.StoreInt32(state, int32(atoi64(ws[k])))
			sites = append(sites, strconv.Itoa(ev.Site))
			loads++
			ev = s.Step(0)
		}
		if ev.Kind == coop.KYield {
			s.Finish(16)
			return "loads=" + strconv.Itoa(loads) + " sites=" + strings.Join(sites, ",") + " TOO-MANY-LOADS"
		}
		return "loads=" + strconv.Itoa(loads) + " sites=" + strings.Join(sites, ",") + " ret=" + ev.String()
	})
}
