package main

import (
	"bytes"
	"errors"
	"fmt"
	"os"
	"runtime"
	"strconv"
	"strings"
	"time"

	"github.com/lixianmin/got/loom"
	"verif/harness/internal/coop"
)

// WaitClose cases (C16).
//
//	c16 progs=KP.I;C;K0 sched=0,1,1,0
//	  progs: one program per thread (';'), operations separated by '.':
//	    K0 = Close(nil); Kn/Ke/Kp = Close(callback returning nil / an error / panicking);
//	    KN/KE/KP = the same callbacks "blocking for a while": they yield to the scheduler once
//	    in the middle (site M); C = C(); I = IsClosed(); W = WaitUtil(1 hour): its wait is a step of its
//	    own (site W = parked inside the select), see "Threads that REALLY block" below.
//	  sched: thread ids; f<tid> = forced step (resume the thread even though it is parked before a held mutex).
//	  All threads share one zero-value loom.WaitClose. The scheduler is mutex-aware: the owner
//	  of wc.mutex is tracked through the AfterLock/AfterUnlock yield events and a thread parked
//	  at BeforeLock while the mutex is held is disabled ("blocked"), so the real Lock() never
//	  blocks a managed goroutine.
//	  Output: steps=<obs per scheduled step> fin=<tid:obs round-robin completion> [waiting=<tids still inside
//	  WaitUtil>] end=<IsClosed()> [rel=<tid:obs of the waiting calls after a final Close(nil) by the harness>]
//	  obs = <event>/<callback markers of this step: s=start e=end>/<closedness 0|1 of every channel
//	  ever returned by C(), in order of first appearance>; event = yL|yB|yA|yU|yM (parked at
//	  LoadState, BeforeLock, AfterLock, AfterUnlock, mid-callback) | r:nil | r:err | r:true |
//	  r:false | r:c<k> (C returned the k-th distinct channel) | r:cnil | blocked | done.
//
//	c16w mode=before|after|closed|closedinit|cbslow|zero|neg|zeroclosed timeout=<ms> delta=<ms>
//	  real-time WaitUtil scenario without hooks; output: res=<bool> ms=<elapsed>
type wcCase struct {
	wc    loom.WaitClose
	s     *coop.Sched
	marks []byte
	chans []chan struct{}
	owner int
	det   []int // per thread: detNone / detLock / detSel
	ndet  int
}

func wcSiteName(site int) string {
	switch site {
	case loom.VerifSiteWcLoadState:
		return "yL"
	case loom.VerifSiteWcBeforeLock:
		return "yB"
	case loom.VerifSiteWcAfterLock:
		return "yA"
	case loom.VerifSiteWcAfterUnlock:
		return "yU"
	case wcSiteMid:
		return "yM"
	}
	return "y?" + strconv.Itoa(site)
}

const wcSiteMid = 100

var errWc = errors.New("cb-error")

func (c *wcCase) callback(kind byte) func() error {
	yields := kind == 'N' || kind == 'E' || kind == 'P'
	return func() error {
		c.marks = append(c.marks, 's')
		if yields {
			c.yield(wcSiteMid)
		}
		c.marks = append(c.marks, 'e')
		switch kind {
		case 'e', 'E':
			return errWc
		case 'p', 'P':
			panic("cb-panic")
		}
		return nil
	}
}

func (c *wcCase) classOf(ch chan struct{}) string {
	if ch == nil {
		return "cnil"
	}
	for i, x := range c.chans {
		if x == ch {
			return "c" + strconv.Itoa(i)
		}
	}
	c.chans = append(c.chans, ch)
	return "c" + strconv.Itoa(len(c.chans)-1)
}

func (c *wcCase) progs(spec string) [][]coop.Op {
	var progs [][]coop.Op
	for _, p := range strings.Split(spec, ";") {
		var ops []coop.Op
		for _, o := range splitNonEmpty(p, ".") {
			switch {
			case o == "C":
				ops = append(ops, func() string { return c.classOf(c.wc.C()) })
			case o == "W":
				ops = append(ops, func() string { return strconv.FormatBool(c.wc.WaitUtil(time.Hour)) })
			case o == "I":
				ops = append(ops, func() string { return strconv.FormatBool(c.wc.IsClosed()) })
			case len(o) == 2 && o[0] == 'K' && strings.IndexByte("0nepNEP", o[1]) >= 0:
				kind := o[1]
				ops = append(ops, func() string {
					var err error
					if kind == '0' {
						err = c.wc.Close(nil)
					} else {
						err = c.wc.Close(c.callback(kind))
					}
					if err == nil {
						return "nil"
					}
					if err == errWc {
						return "err"
					}
					return "other:" + err.Error()
				})
			default:
				panic("bad op " + o)
			}
		}
		progs = append(progs, ops)
	}
	return progs
}

func isClosedChan(ch chan struct{}) bool {
	select {
	case <-ch:
		return true
	default:
		return false
	}
}

// Threads that REALLY block inside the library. A step is "resume the goroutine, then poll": either its
// event arrives, or the goroutine is found parked (status of its runtime.Stack header, read with the world
// stopped) inside WaitUtil's select ("select") or inside mutex.Lock() ("sync.Mutex.Lock"). No timing is
// involved: nobody else runs during a step, so parked-in-select means that no case of the select was ready
// when the wait began (the WaitUtil timeout is one hour), parked-in-Lock means the mutex was held.
//
//	detSel:  the thread is inside WaitUtil's select (model: pc WWait, site yW). A later step of it is
//	         "blocked" while it is still parked there, and yields its return value once a close woke it up.
//	detLock: a FORCED step (schedule item f<tid>) resumed a thread parked at BeforeLock although the mutex is
//	         held; in the model that step is the disabled no-op, here the goroutine must park inside Lock()
//	         (observation "blocked"). It acquires the mutex by itself as soon as the holder unlocks and runs on
//	         to its AfterLock yield: that is reported as an automatic step "+<tid>:<obs>" appended to the
//	         observation of the unlocking step (the model driver does the same: the waiter is the only
//	         contender, nobody else runs). At most one thread is inside Lock() at a time; an f item meeting
//	         another one, or a thread that is not disabled, is an ordinary step.
const (
	detNone = iota
	detLock
	detSel
)

// goStatus returns "select" / "sync.Mutex.Lock" when goroutine id is parked (status _Gwaiting with that wait
// reason) inside WaitUtil's select / inside a Lock() called from a WaitClose method, "" or another status
// otherwise. The frames are checked as well: a goroutine can park for reasons of the runtime's own (e.g. it
// starts a GC cycle and waits for the world semaphore that this very function holds while dumping the stacks).
func goStatus(id uint64) string {
	buf := make([]byte, 1<<16)
	for {
		n := runtime.Stack(buf, true)
		if n < len(buf) {
			buf = buf[:n]
			break
		}
		buf = make([]byte, 2*len(buf))
	}
	key := []byte("goroutine " + strconv.FormatUint(id, 10) + " [")
	for off := 0; off < len(buf); {
		i := bytes.Index(buf[off:], key)
		if i < 0 {
			return ""
		}
		i += off
		if i == 0 || buf[i-1] == '\n' {
			rest := buf[i+len(key):]
			j := bytes.IndexAny(rest, ",]")
			if j < 0 {
				return ""
			}
			st := string(rest[:j])
			block := rest
			if k := bytes.Index(rest, []byte("\n\n")); k >= 0 {
				block = rest[:k]
			}
			switch st {
			case "select":
				if !bytes.Contains(block, []byte("loom.(*WaitClose).WaitUtil")) {
					return "other:" + st
				}
			case "sync.Mutex.Lock":
				if !bytes.Contains(block, []byte("sync.(*Mutex).Lock")) || !bytes.Contains(block, []byte("loom.(*WaitClose).")) {
					return "other:" + st
				}
			}
			return st
		}
		off = i + len(key)
	}
	return ""
}

func allStacks() string {
	buf := make([]byte, 1<<18)
	return string(buf[:runtime.Stack(buf, true)])
}

func parkedStatus(st string) bool {
	return st == "select" || st == "sync.Mutex.Lock"
}

// await polls for the event of a resumed (or detached and possibly woken) thread. It returns the event, or the
// status in which the goroutine is parked inside the library, or "HANG:..." when neither happens within 2 s.
func (c *wcCase) await(t *coop.Thread) (coop.Event, string) {
	deadline := time.Now().Add(2 * time.Second)
	for n := 0; ; n++ {
		if ev, ok := c.s.TryEnd(t); ok {
			return ev, ""
		}
		if n < 40 {
			runtime.Gosched()
			continue
		}
		st := goStatus(t.GID())
		if parkedStatus(st) {
			return coop.Event{}, st
		}
		if time.Now().After(deadline) {
			return coop.Event{}, "HANG:" + st
		}
		if n > 400 {
			time.Sleep(50 * time.Microsecond)
		} else {
			runtime.Gosched()
		}
	}
}

// yield hook: the goroutine of a detached thread (woken inside Lock by the holder's Unlock) reports on its own
// channel; everything else goes through the scheduler.
func (c *wcCase) yield(site int) {
	if c.ndet > 0 {
		g := coop.GID()
		for i, k := range c.det {
			if k != detNone && c.s.Threads[i].GID() == g {
				c.s.YieldAs(c.s.Threads[i], site)
				return
			}
		}
	}
	c.s.Yield(site)
}

func (c *wcCase) setDet(tid, k int) {
	if (c.det[tid] == detNone) != (k == detNone) {
		if k == detNone {
			c.ndet--
		} else {
			c.ndet++
		}
	}
	c.det[tid] = k
}

func (c *wcCase) anyInLock() int {
	for i, k := range c.det {
		if k == detLock {
			return i
		}
	}
	return -1
}

func (c *wcCase) evName(ev coop.Event) string {
	if ev.Kind == coop.KYield {
		return wcSiteName(ev.Site)
	}
	return ev.String()
}

// one step of thread tid -> event name; "HANG" = a goroutine got stuck where the protocol does not allow it
func (c *wcCase) stepEvent(tid int, forced bool) string {
	if tid < 0 || tid >= len(c.s.Threads) {
		return "done"
	}
	t := c.s.Threads[tid]
	if t.Over() {
		return "done"
	}
	switch c.det[tid] {
	case detSel:
		ev, st := c.await(t)
		if st == "select" {
			return "blocked"
		}
		if st != "" {
			return "HANG"
		}
		c.setDet(tid, detNone)
		return c.evName(ev)
	case detLock:
		ev, st := c.await(t)
		if st == "sync.Mutex.Lock" {
			return "blocked"
		}
		if st != "" {
			return "HANG"
		}
		c.setDet(tid, detNone)
		return c.evName(ev)
	}
	disabled := c.s.Blocked(t)
	if disabled && !(forced && c.anyInLock() < 0) {
		return "blocked"
	}
	c.s.Begin(tid)
	ev, st := c.await(t)
	switch {
	case st == "":
		return c.evName(ev)
	case st == "select":
		c.setDet(tid, detSel)
		c.s.Detach(t)
		return "yW"
	case st == "sync.Mutex.Lock" && disabled:
		c.setDet(tid, detLock)
		c.s.Detach(t)
		return "blocked"
	}
	if os.Getenv("VERIF_C16_DEBUG") != "" {
		fmt.Fprintf(os.Stderr, "HANG tid=%d st=%q disabled=%v owner=%d det=%v\n%s\n", tid, st, disabled, c.owner, c.det, allStacks())
	}
	return "HANG"
}

func (c *wcCase) render(name string) string {
	var sb strings.Builder
	sb.WriteString(name)
	sb.WriteByte('/')
	sb.Write(c.marks)
	c.marks = c.marks[:0]
	sb.WriteByte('/')
	for _, ch := range c.chans {
		if isClosedChan(ch) {
			sb.WriteByte('1')
		} else {
			sb.WriteByte('0')
		}
	}
	return sb.String()
}

func (c *wcCase) step(tid int, forced bool) (string, bool) {
	name := c.stepEvent(tid, forced)
	if name == "HANG" {
		wcHung = true
		return "HANG", false
	}
	out := c.render(name)
	// the mutex was released in this step: the thread inside Lock() takes it
	if j := c.anyInLock(); j >= 0 && c.owner < 0 {
		ev, st := c.await(c.s.Threads[j])
		if st == "" {
			c.setDet(j, detNone)
			out += "+" + strconv.Itoa(j) + ":" + c.render(c.evName(ev))
		} else if os.Getenv("VERIF_C16_DEBUG") != "" {
			fmt.Fprintf(os.Stderr, "AUTO-SKIP j=%d st=%q owner=%d det=%v\n%s\n", j, st, c.owner, c.det, allStacks())
		}
		if strings.HasPrefix(st, "HANG") {
			wcHung = true
			return out + "+" + strconv.Itoa(j) + ":HANG", false
		}
	}
	return out, true
}

// would a step of tid execute something? (as wc_enabled of the model)
func (c *wcCase) enabled(tid int) bool {
	t := c.s.Threads[tid]
	if t.Over() {
		return false
	}
	switch c.det[tid] {
	case detLock:
		return false
	case detSel:
		deadline := time.Now().Add(2 * time.Second)
		for {
			switch st := goStatus(t.GID()); {
			case st == "select":
				return false
			case st == "chan send" || time.Now().After(deadline):
				return true
			}
			runtime.Gosched()
		}
	}
	return !c.s.Blocked(t)
}

// set once a managed goroutine got stuck in the library: its leaked goroutines may still run
// into the yield hook, so the remaining c16 cases of this process are not executed
var wcHung bool

func runC16(toks []string) string {
	if wcHung {
		return "steps= HANG"
	}
	m := kv(toks[1:])
	c := &wcCase{owner: -1}
	c.s = coop.New(c.progs(m["progs"]))
	c.det = make([]int, len(c.s.Threads))
	c.s.OnEvent = func(t *coop.Thread, e coop.Event) {
		if e.Kind == coop.KYield {
			switch e.Site {
			case loom.VerifSiteWcAfterLock:
				c.owner = t.ID
			case loom.VerifSiteWcAfterUnlock:
				c.owner = -1
			}
		}
	}
	c.s.Blocked = func(t *coop.Thread) bool {
		return t.AtSite == loom.VerifSiteWcBeforeLock && c.owner >= 0
	}
	loom.VerifYield = c.yield
	defer func() { loom.VerifYield = nil }()
	var sb strings.Builder
	sb.WriteString("steps=")
	for i, tok := range splitNonEmpty(m["sched"], ",") {
		if i > 0 {
			sb.WriteByte(',')
		}
		forced := strings.HasPrefix(tok, "f")
		o, ok := c.step(atoi(strings.TrimPrefix(tok, "f")), forced)
		sb.WriteString(o)
		if !ok {
			return sb.String() + " HANG"
		}
	}
	sb.WriteString(" fin=")
	first := true
	finished := false
	for n := 0; n < 4096 && !finished; n++ {
		progressed := false
		for i := range c.s.Threads {
			if c.enabled(i) {
				o, ok := c.step(i, false)
				if !first {
					sb.WriteByte(',')
				}
				first = false
				sb.WriteString(strconv.Itoa(i) + ":" + o)
				if !ok {
					return sb.String() + " HANG"
				}
				progressed = true
			}
		}
		if !progressed {
			finished = true
		}
	}
	if !finished {
		return sb.String() + " LIVELOCK"
	}
	// a thread that is neither finished nor enabled is stuck for ever: deadlock -- unless it is a WaitUtil
	// waiting (with its one-hour timeout) for a close that no program performs
	var waiting []int
	for i, t := range c.s.Threads {
		if t.Over() {
			continue
		}
		if c.det[i] != detSel {
			return sb.String() + " DEADLOCK"
		}
		waiting = append(waiting, i)
	}
	if len(waiting) > 0 {
		sb.WriteString(" waiting=")
		for k, i := range waiting {
			if k > 0 {
				sb.WriteByte(',')
			}
			sb.WriteString(strconv.Itoa(i))
		}
	}
	var end bool
	c.s.Unmanaged(func() { end = c.wc.IsClosed() })
	sb.WriteString(" end=" + strconv.FormatBool(end))
	if len(waiting) > 0 {
		// release them: a Close by the harness itself, after which every waiting WaitUtil must return true
		c.s.Unmanaged(func() { c.wc.Close(nil) })
		sb.WriteString(" rel=")
		for k, i := range waiting {
			if k > 0 {
				sb.WriteByte(',')
			}
			o, ok := c.step(i, false)
			sb.WriteString(strconv.Itoa(i) + ":" + o)
			if !ok {
				return sb.String() + " HANG"
			}
			if strings.HasPrefix(o, "blocked") {
				// this goroutine stays inside WaitUtil for its full hour: the process is polluted (every
				// later stack dump would have to walk over the leaked goroutines), stop executing cases
				wcHung = true
			}
		}
	}
	return sb.String()
}

// real-time WaitUtil scenarios (monitor-only stream)
func runC16w(toks []string) string {
	m := kv(toks[1:])
	timeout := time.Duration(atoi(m["timeout"])) * time.Millisecond
	delta := time.Duration(atoi(m["delta"])) * time.Millisecond
	loom.VerifYield = nil
	var wc loom.WaitClose
	type res struct {
		ok bool
		d  time.Duration
	}
	out := make(chan res, 1)
	wait := func(d time.Duration) {
		go func() {
			t0 := time.Now()
			r := wc.WaitUtil(d)
			out <- res{r, time.Since(t0)}
		}()
	}
	var closer chan struct{}
	switch m["mode"] {
	case "before":
		wait(timeout)
		time.Sleep(timeout - delta)
		wc.Close(nil)
	case "after":
		wait(timeout)
		time.Sleep(timeout + delta)
		wc.Close(nil)
	case "closed":
		wc.Close(nil)
		wait(timeout)
	case "closedinit":
		wc.C()
		wc.Close(nil)
		wait(timeout)
	case "cbslow":
		// the channel is closed before the callback runs: WaitUtil sees the close at
		// timeout-delta although Close itself returns only after the timeout
		wait(timeout)
		time.Sleep(timeout - delta)
		closer = make(chan struct{})
		go func() {
			wc.Close(func() error { time.Sleep(2 * delta); return nil })
			close(closer)
		}()
	case "reuse":
		// Nothing of one WaitUtil call may leak into a later one. Phase 1 provokes the awkward leftover: with one P,
		// the closer closes just before the waiter's timeout and then keeps the P busy past the timeout, so the
		// waiter is woken by the close while its timer fires as well. Phase 2: a fresh object, closed after 10 ms,
		// must make WaitUtil(5 s) return true (and not at once with false).
		for round := 0; round < 3; round++ {
			old := runtime.GOMAXPROCS(1)
			var w1 loom.WaitClose
			done1 := make(chan bool, 1)
			go func() { done1 <- w1.WaitUtil(timeout) }()
			start := time.Now()
			time.Sleep(timeout - delta)
			w1.Close(nil)
			for time.Since(start) < timeout+5*time.Millisecond {
			}
			<-done1
			runtime.GOMAXPROCS(old)
			var w2 loom.WaitClose
			t0 := time.Now()
			go func() { time.Sleep(10 * time.Millisecond); w2.Close(nil) }()
			ok := w2.WaitUtil(5 * time.Second)
			if !ok {
				return fmt.Sprintf("res=false ms=%d", time.Since(t0).Milliseconds())
			}
		}
		return "res=true ms=10"
	case "cbwait":
		// WaitUtil with a zero / negative / short timeout called while the closing call's callback is still running
		// (the channel is closed already, the state word is not yet "closed"): by the callback itself and by a waiter
		// that has just been released by <-C(). The close has happened: every call must return true. No timing involved.
		// (Only initialised objects: on a zero-value object C()/WaitUtil called from inside the callback would need the
		// mutex the closing call holds -- calling back into the object before it is initialised is outside the property.)
		falses := 0
		for round := 0; round < 200; round++ {
			var w loom.WaitClose
			c := w.C()
			released := make(chan bool, 1)
			if c != nil {
				go func() {
					<-c
					released <- w.WaitUtil(0) && w.WaitUtil(-time.Second) && w.WaitUtil(time.Millisecond)
				}()
			} else {
				released <- true
			}
			w.Close(func() error {
				if !w.WaitUtil(0) || !w.WaitUtil(-time.Second) || !w.WaitUtil(time.Millisecond) {
					falses++
				}
				if !<-released { // the released waiter's calls also run inside the callback's window
					falses++
				}
				return nil
			})
		}
		if falses > 0 {
			return fmt.Sprintf("res=false ms=%d", falses)
		}
		return "res=true ms=0"
	case "closedtiny":
		// objects closed BEFORE the call, tiny / zero / negative timeouts: the close happened before the timeout, so every
		// call must return true (with both the closed channel and the timer ready a select would pick at random)
		falses := 0
		for _, d := range []time.Duration{0, -time.Second, time.Nanosecond, time.Microsecond, 20 * time.Microsecond} {
			for i := 0; i < 8000; i++ {
				var w loom.WaitClose
				if i%2 == 0 {
					w.C()
				}
				w.Close(nil)
				if !w.WaitUtil(d) {
					falses++
				}
			}
		}
		if falses > 0 {
			return fmt.Sprintf("res=false ms=%d", falses)
		}
		return "res=true ms=0"
	case "zero":
		wait(0)
	case "neg":
		wait(-5 * time.Millisecond)
	case "zeroclosed":
		wc.Close(nil)
		wait(0)
	default:
		panic("bad mode " + m["mode"])
	}
	var r res
	select {
	case r = <-out:
	case <-time.After(timeout + 5*time.Second):
		return "res=HANG ms=0"
	}
	if closer != nil {
		<-closer
	}
	return fmt.Sprintf("res=%v ms=%d", r.ok, r.d.Milliseconds())
}

func init() {
	register("c16", runC16)
	register("c16w", runC16w)
}
