package main

import (
	"errors"
	"fmt"
	"runtime"
	"strconv"
	"strings"
	"time"

	"github.com/lixianmin/got/loom"
	"verif/harness/internal/coop"
)

// WaitClose cases (C16).
//
//	c16 progs=KP.I;C;K0 sched=0,1,1,0
//	  progs: one program per thread (';'), operations separated by '.':
//	    K0 = Close(nil); Kn/Ke/Kp = Close(callback returning nil / an error / panicking);
//	    KN/KE/KP = the same callbacks "blocking for a while": they yield to the scheduler once
//	    in the middle (site M); C = C(); I = IsClosed().
//	  All threads share one zero-value loom.WaitClose. The scheduler is mutex-aware: the owner
//	  of wc.mutex is tracked through the AfterLock/AfterUnlock yield events and a thread parked
//	  at BeforeLock while the mutex is held is disabled ("blocked"), so the real Lock() never
//	  blocks a managed goroutine.
//	  Output: steps=<obs per scheduled step> fin=<tid:obs round-robin completion> end=<IsClosed()>
//	  obs = <event>/<callback markers of this step: s=start e=end>/<closedness 0|1 of every channel
//	  ever returned by C(), in order of first appearance>; event = yL|yB|yA|yU|yM (parked at
//	  LoadState, BeforeLock, AfterLock, AfterUnlock, mid-callback) | r:nil | r:err | r:true |
//	  r:false | r:c<k> (C returned the k-th distinct channel) | r:cnil | blocked | done.
//
//	c16w mode=before|after|closed|closedinit|cbslow|zero|neg|zeroclosed timeout=<ms> delta=<ms>
//	  real-time WaitUtil scenario without hooks; output: res=<bool> ms=<elapsed>
type wcCase struct {
	wc    loom.WaitClose
	s     *coop.Sched
	marks []byte
	chans []chan struct{}
	owner int
}

func wcSiteName(site int) string {
	switch site {
	case loom.VerifSiteWcLoadState:
		return "yL"
	case loom.VerifSiteWcBeforeLock:
		return "yB"
	case loom.VerifSiteWcAfterLock:
		return "yA"
	case loom.VerifSiteWcAfterUnlock:
		return "yU"
	case wcSiteMid:
		return "yM"
	}
	return "y?" + strconv.Itoa(site)
}

const wcSiteMid = 100

var errWc = errors.New("cb-error")

func (c *wcCase) callback(kind byte) func() error {
	yields := kind == 'N' || kind == 'E' || kind == 'P'
	return func() error {
		c.marks = append(c.marks, 's')
		if yields {
			c.s.Yield(wcSiteMid)
		}
		c.marks = append(c.marks, 'e')
		switch kind {
		case 'e', 'E':
			return errWc
		case 'p', 'P':
			panic("cb-panic")
		}
		return nil
	}
}

func (c *wcCase) classOf(ch chan struct{}) string {
	if ch == nil {
		return "cnil"
	}
	for i, x := range c.chans {
		if x == ch {
			return "c" + strconv.Itoa(i)
		}
	}
	c.chans = append(c.chans, ch)
	return "c" + strconv.Itoa(len(c.chans)-1)
}

func (c *wcCase) progs(spec string) [][]coop.Op {
	var progs [][]coop.Op
	for _, p := range strings.Split(spec, ";") {
		var ops []coop.Op
		for _, o := range splitNonEmpty(p, ".") {
			switch {
			case o == "C":
				ops = append(ops, func() string { return c.classOf(c.wc.C()) })
			case o == "I":
				ops = append(ops, func() string { return strconv.FormatBool(c.wc.IsClosed()) })
			case len(o) == 2 && o[0] == 'K' && strings.IndexByte("0nepNEP", o[1]) >= 0:
				kind := o[1]
				ops = append(ops, func() string {
					var err error
					if kind == '0' {
						err = c.wc.Close(nil)
					} else {
						err = c.wc.Close(c.callback(kind))
					}
					if err == nil {
						return "nil"
					}
					if err == errWc {
						return "err"
					}
					return "other:" + err.Error()
				})
			default:
				panic("bad op " + o)
			}
		}
		progs = append(progs, ops)
	}
	return progs
}

func isClosedChan(ch chan struct{}) bool {
	select {
	case <-ch:
		return true
	default:
		return false
	}
}

// step with a watchdog: a managed goroutine blocking on the real mutex (possible only when
// the code under test no longer matches the yield protocol) must not hang the harness.
func (c *wcCase) step(tid int) (string, bool) {
	done := make(chan coop.Event, 1)
	go func() { done <- c.s.Step(tid) }()
	var ev coop.Event
	select {
	case ev = <-done:
	case <-time.After(2 * time.Second):
		wcHung = true
		return "HANG", false
	}
	var name string
	if ev.Kind == coop.KYield {
		name = wcSiteName(ev.Site)
	} else {
		name = ev.String()
	}
	var sb strings.Builder
	sb.WriteString(name)
	sb.WriteByte('/')
	sb.Write(c.marks)
	c.marks = c.marks[:0]
	sb.WriteByte('/')
	for _, ch := range c.chans {
		if isClosedChan(ch) {
			sb.WriteByte('1')
		} else {
			sb.WriteByte('0')
		}
	}
	return sb.String(), true
}

// set once a managed goroutine got stuck in the library: its leaked goroutines may still run
// into the yield hook, so the remaining c16 cases of this process are not executed
var wcHung bool

func runC16(toks []string) string {
	if wcHung {
		return "steps= HANG"
	}
	m := kv(toks[1:])
	c := &wcCase{owner: -1}
	c.s = coop.New(c.progs(m["progs"]))
	c.s.OnEvent = func(t *coop.Thread, e coop.Event) {
		if e.Kind == coop.KYield {
			switch e.Site {
			case loom.VerifSiteWcAfterLock:
				c.owner = t.ID
			case loom.VerifSiteWcAfterUnlock:
				c.owner = -1
			}
		}
	}
	c.s.Blocked = func(t *coop.Thread) bool {
		return t.AtSite == loom.VerifSiteWcBeforeLock && c.owner >= 0
	}
	loom.VerifYield = c.s.Yield
	defer func() { loom.VerifYield = nil }()
	var sb strings.Builder
	sb.WriteString("steps=")
	for i, tid := range intList(m["sched"]) {
		if i > 0 {
			sb.WriteByte(',')
		}
		o, ok := c.step(tid)
		sb.WriteString(o)
		if !ok {
			return sb.String() + " HANG"
		}
	}
	sb.WriteString(" fin=")
	first := true
	finished := false
	for n := 0; n < 4096 && !finished; n++ {
		progressed := false
		for i := range c.s.Threads {
			if c.s.Enabled(i) {
				o, ok := c.step(i)
				if !first {
					sb.WriteByte(',')
				}
				first = false
				sb.WriteString(strconv.Itoa(i) + ":" + o)
				if !ok {
					return sb.String() + " HANG"
				}
				progressed = true
			}
		}
		if !progressed {
			finished = true
		}
	}
	if !finished {
		return sb.String() + " LIVELOCK"
	}
	// a thread that is neither finished nor enabled is stuck for ever: deadlock
	for i := range c.s.Threads {
		if ev := c.s.Step(i); ev.Kind != coop.KDone {
			return sb.String() + " DEADLOCK"
		}
	}
	var end bool
	c.s.Unmanaged(func() { end = c.wc.IsClosed() })
	return sb.String() + " end=" + strconv.FormatBool(end)
}

// real-time WaitUtil scenarios (monitor-only stream)
func runC16w(toks []string) string {
	m := kv(toks[1:])
	timeout := time.Duration(atoi(m["timeout"])) * time.Millisecond
	delta := time.Duration(atoi(m["delta"])) * time.Millisecond
	loom.VerifYield = nil
	var wc loom.WaitClose
	type res struct {
		ok bool
		d  time.Duration
	}
	out := make(chan res, 1)
	wait := func(d time.Duration) {
		go func() {
			t0 := time.Now()
			r := wc.WaitUtil(d)
			out <- res{r, time.Since(t0)}
		}()
	}
	var closer chan struct{}
	switch m["mode"] {
	case "before":
		wait(timeout)
		time.Sleep(timeout - delta)
		wc.Close(nil)
	case "after":
		wait(timeout)
		time.Sleep(timeout + delta)
		wc.Close(nil)
	case "closed":
		wc.Close(nil)
		wait(timeout)
	case "closedinit":
		wc.C()
		wc.Close(nil)
		wait(timeout)
	case "cbslow":
		// the channel is closed before the callback runs: WaitUtil sees the close at
		// timeout-delta although Close itself returns only after the timeout
		wait(timeout)
		time.Sleep(timeout - delta)
		closer = make(chan struct{})
		go func() {
			wc.Close(func() error { time.Sleep(2 * delta); return nil })
			close(closer)
		}()
	case "reuse":
		// Nothing of one WaitUtil call may leak into a later one. Phase 1 provokes the awkward leftover: with one P,
		// the closer closes just before the waiter's timeout and then keeps the P busy past the timeout, so the
		// waiter is woken by the close while its timer fires as well. Phase 2: a fresh object, closed after 10 ms,
		// must make WaitUtil(5 s) return true (and not at once with false).
		for round := 0; round < 3; round++ {
			old := runtime.GOMAXPROCS(1)
			var w1 loom.WaitClose
			done1 := make(chan bool, 1)
			go func() { done1 <- w1.WaitUtil(timeout) }()
			start := time.Now()
			time.Sleep(timeout - delta)
			w1.Close(nil)
			for time.Since(start) < timeout+5*time.Millisecond {
			}
			<-done1
			runtime.GOMAXPROCS(old)
			var w2 loom.WaitClose
			t0 := time.Now()
			go func() { time.Sleep(10 * time.Millisecond); w2.Close(nil) }()
			ok := w2.WaitUtil(5 * time.Second)
			if !ok {
				return fmt.Sprintf("res=false ms=%d", time.Since(t0).Milliseconds())
			}
		}
		return "res=true ms=10"
	case "zero":
		wait(0)
	case "neg":
		wait(-5 * time.Millisecond)
	case "zeroclosed":
		wc.Close(nil)
		wait(0)
	default:
		panic("bad mode " + m["mode"])
	}
	var r res
	select {
	case r = <-out:
	case <-time.After(timeout + 5*time.Second):
		return "res=HANG ms=0"
	}
	if closer != nil {
		<-closer
	}
	return fmt.Sprintf("res=%v ms=%d", r.ok, r.d.Milliseconds())
}

func init() {
	register("c16", runC16)
	register("c16w", runC16w)
}
