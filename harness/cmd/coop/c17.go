package main

import (
	"fmt"
	"runtime"
	"strconv"
	"strings"
	"sync"
	"sync/atomic"
	"time"

	"github.com/lixianmin/got/loom"
	"verif/harness/internal/coop"
)

// C17 cases (loom.Flag, loom.AddIf64, loom.Mutex.TryLock / Count).
//
//   c17a init=<int64> progs=A<f>.R<f>.H<f>.I<kind>:<delta>:<limit>;... sched=0,1,1,0
//     one shared int64 word; A = (*Flag).AddFlag(f), R = RemoveFlag(f), H = HasFlag(f),
//     I = AddIf64(&word, delta, pred(kind, delta, limit)); threads run under the cooperative
//     scheduler. Output: steps=<event per scheduled step> fin=<tid:event ...> vals=<word before
//     the first step and after every step (schedule, then completion)>
//   c17t w=<w1>,<w2>,<w3>
//     one TryLock call on a loom.Mutex whose state word is set to w1 before the first CAS, w2
//     before the load, w3 before the second CAS. Output: ev=<events> after=<word after each
//     executed access>
//   c17c w=<word>        Count() on a mutex whose state word is <word>. Output: count=<n>
//   c17n                 AddIf64(nil, ..) -> false
//   c17s n=<goroutines> iters=<k> hold=<every h-th holder keeps the lock 1.2ms> try=<percent TryLock>
//     real goroutines (no cooperative scheduling). Output: maxocc=.. sum=.. want=.. word=.. count=..

func c17pred(kind int, delta, limit int64) func(int64) bool {
	switch kind {
	case 0:
		return func(old int64) bool { return old+delta <= limit }
	case 1:
		return func(old int64) bool { return old < limit }
	case 2:
		return func(old int64) bool { return old+delta >= limit }
	case 3:
		return func(old int64) bool { return true }
	case 4:
		return func(old int64) bool { return false }
	default:
		return func(old int64) bool { return old != limit }
	}
}

func atoi64(s string) int64 {
	v, err := strconv.ParseInt(s, 10, 64)
	if err != nil {
		panic("bad int64 " + s)
	}
	return v
}

func c17progs(word *int64, spec string) [][]coop.Op {
	flag := (*loom.Flag)(word)
	var progs [][]coop.Op
	for _, p := range strings.Split(spec, ";") {
		var ops []coop.Op
		for _, o := range splitNonEmpty(p, ".") {
			switch o[0] {
			case 'A':
				f := atoi64(o[1:])
				ops = append(ops, func() string { flag.AddFlag(f); return "add" })
			case 'R':
				f := atoi64(o[1:])
				ops = append(ops, func() string { flag.RemoveFlag(f); return "rem" })
			case 'H':
				f := atoi64(o[1:])
				ops = append(ops, func() string { return fmt.Sprintf("has=%v", flag.HasFlag(f)) })
			case 'I':
				a := strings.Split(o[1:], ":")
				pred := c17pred(atoi(a[0]), atoi64(a[1]), atoi64(a[2]))
				delta := atoi64(a[1])
				ops = append(ops, func() string { return fmt.Sprintf("if=%v", loom.AddIf64(word, delta, pred)) })
			default:
				panic("bad op " + o)
			}
		}
		progs = append(progs, ops)
	}
	return progs
}

func init() {
	register("c17a", func(toks []string) string {
		m := kv(toks[1:])
		word := new(int64)
		*word = atoi64(m["init"])
		s := coop.New(c17progs(word, m["progs"]))
		loom.VerifYield = s.Yield
		defer func() { loom.VerifYield = nil }()
		var steps, fin, vals strings.Builder
		vals.WriteString(strconv.FormatInt(atomic.LoadInt64(word), 10))
		for i, tid := range intList(m["sched"]) {
			if i > 0 {
				steps.WriteByte(',')
			}
			steps.WriteString(s.Step(tid).String())
			vals.WriteByte(',')
			vals.WriteString(strconv.FormatInt(atomic.LoadInt64(word), 10))
		}
		first := true
		ok := false
		for n := 0; n < 4096; n++ {
			progressed := false
			for i := range s.Threads {
				if s.Enabled(i) {
					ev := s.Step(i)
					if !first {
						fin.WriteByte(',')
					}
					first = false
					fin.WriteString(strconv.Itoa(i) + ":" + ev.String())
					vals.WriteByte(',')
					vals.WriteString(strconv.FormatInt(atomic.LoadInt64(word), 10))
					progressed = true
				}
			}
			if !progressed {
				ok = true
				break
			}
		}
		res := "steps=" + steps.String() + " fin=" + fin.String() + " vals=" + vals.String()
		if !ok {
			res += " LIVELOCK"
		}
		return res
	})

	register("c17t", func(toks []string) string {
		m := kv(toks[1:])
		ws := strings.Split(m["w"], ",")
		mu := &loom.Mutex{}
		state := mu.VerifStateWord()
		s := coop.New([][]coop.Op{{func() string { return strconv.FormatBool(mu.TryLock()) }}})
		loom.VerifYield = s.Yield
		defer func() { loom.VerifYield = nil }()
		var evs, after []string
		ev := s.Step(0) // invocation: parks before the first CAS
		evs = append(evs, ev.String())
		for k := 0; k < 3 && ev.Kind == coop.KYield; k++ {
			atomic.StoreInt32(state, int32(atoi64(ws[k])))
			ev = s.Step(0)
			evs = append(evs, ev.String())
			after = append(after, strconv.FormatInt(int64(atomic.LoadInt32(state)), 10))
		}
		if ev.Kind == coop.KYield {
			s.Finish(16)
			return "ev=" + strings.Join(evs, ",") + " after=" + strings.Join(after, ",") + " TOO-MANY-STEPS"
		}
		return "ev=" + strings.Join(evs, ",") + " after=" + strings.Join(after, ",")
	})

	register("c17c", func(toks []string) string {
		m := kv(toks[1:])
		mu := &loom.Mutex{}
		atomic.StoreInt32(mu.VerifStateWord(), int32(atoi64(m["w"])))
		return "count=" + strconv.Itoa(mu.Count())
	})

	register("c17n", func(toks []string) string {
		called := false
		r := loom.AddIf64(nil, 1, func(int64) bool { called = true; return true })
		return fmt.Sprintf("nil=%v called=%v", r, called)
	})

	register("c17s", func(toks []string) string {
		m := kv(toks[1:])
		n, iters, hold, try := atoi(m["n"]), atoi(m["iters"]), atoi(m["hold"]), atoi(m["try"])
		loom.VerifYield = nil
		mu := &loom.Mutex{}
		var occ, maxocc int32
		var tryOk, tryFail, starved int64
		sum := 0 // plain variable, protected by mu only
		var want int64
		var wg sync.WaitGroup
		for g := 0; g < n; g++ {
			wg.Add(1)
			go func(g int) {
				defer wg.Done()
				for i := 0; i < iters; i++ {
					k := g*iters + i
					if (k*7+g)%100 < try {
						if !mu.TryLock() {
							atomic.AddInt64(&tryFail, 1)
							runtime.Gosched()
							continue
						}
						atomic.AddInt64(&tryOk, 1)
					} else {
						mu.Lock()
					}
					o := atomic.AddInt32(&occ, 1)
					for {
						mx := atomic.LoadInt32(&maxocc)
						if o <= mx || atomic.CompareAndSwapInt32(&maxocc, mx, o) {
							break
						}
					}
					if mu.IsStarving() {
						atomic.AddInt64(&starved, 1)
					}
					if c := mu.Count(); c < 1 {
						atomic.StoreInt32(&maxocc, -int32(c)-100) // holder not counted
					}
					sum++
					if hold > 0 && k%hold == 0 {
						time.Sleep(1200 * time.Microsecond)
					} else if k%3 == 0 {
						runtime.Gosched()
					}
					sum++
					atomic.AddInt64(&want, 2)
					atomic.AddInt32(&occ, -1)
					mu.Unlock()
				}
			}(g)
		}
		wg.Wait()
		return fmt.Sprintf("maxocc=%d sum=%d want=%d word=%d count=%d tryok=%d tryfail=%d starving_seen=%d",
			maxocc, sum, want, atomic.LoadInt32(mu.VerifStateWord()), mu.Count(), tryOk, tryFail, starved)
	})
}
