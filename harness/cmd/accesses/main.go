// Command accesses regenerates, from the source of lixianmin/got, the table of how each
// function of the goroutine-shared components touches shared state: plain reads/writes
// of tracked fields, sync/atomic calls, mutex / WaitGroup / channel operations, calls of
// tracked helper functions, go/defer statements and returns, in source order with the
// enclosing control structure. The race-freedom theorems (coq/props/C18.v) were proved
// against the table stored in coq/models/RaceInst.v; the C18 check compares the two on
// every run (DESIGN.md 4.4). Only go/parser + go/ast: no type information needed.
//
//	usage: accesses <repo-dir> <out-file>
package main

import (
	"fmt"
	"go/ast"
	"go/parser"
	"go/token"
	"os"
	"path/filepath"
	"sort"
	"strings"
)

type fileSpec struct {
	path   string
	fields map[string]bool // tracked field / variable names
	calls  map[string]bool // tracked callee names (helper functions that touch shared state)
	allocs map[string]bool // tracked struct types: a composite literal T{...} / &T{...} is an allocation "new:T"
}

func set(xs ...string) map[string]bool {
	m := map[string]bool{}
	for _, x := range xs {
		m[x] = true
	}
	return m
}

var specs = []fileSpec{
	{"cachex/future.go", set("value", "err", "updateTime", "predecessor", "wg"), set("setValue", "getUpdateTime", "getPredecessor"), nil},
	{"cachex/cache_impl.go", set("value", "err", "updateTime", "predecessor", "wg", "d", "jobChan", "closeChan", "futures"),
		set("setValue", "getUpdateTime", "getPredecessor", "getFutureStatus", "fetchIfFutureStatusGood", "sendJob", "removeRotted", "Get2", "newFuture", "loader"), nil},
	{"ants/task_callback_ants.go", set("result", "err", "wg", "doneChan"), set("runTaskOnce", "run", "sendInnerCallback", "handler", "onError", "Get2", "cancel"), nil},
	{"ants/pool_impl.go", set("taskChan", "innerCallbackChan", "closeChan"), set("run", "callback", "newTaskCallback", "newTaskDiscard", "onError"), nil},
	{"taskx/task_callback.go", set("result", "err", "isHandled", "wg"), set("handler"), nil},
	{"taskx/queue.go", set("C", "closeChan", "wg"), set("PushTask", "newTaskDelayed"), set("taskCallback")},
	{"loom/queue.go", set("head", "tail", "next", "value"), set("queueLoad", "queueCas"), nil},
	{"loom/wheel.go", set("position", "channels", "c", "wc"), set("fetchWheelData", "onTicker", "callback", "Reset"), nil},
	{"loom/wheel_timer.go", set("C", "interval", "wheel"), set("fetchWheelData"), nil},
	{"loom/wait_close.go", set("closeChan", "state", "mutex", "globalClosedChan"), set("checkInitSlow", "callback"), nil},
	{"loom/flag.go", set("addr"), set(), nil},
	{"loom/atomic.go", set("addr"), set("predicate"), nil},
	{"loom/mutex.go", set("state", "Mutex", "m"), set("TryLock"), nil},
}

type walker struct {
	spec fileSpec
}

var syncMethods = set("Lock", "Unlock", "RLock", "RUnlock", "Wait", "Done", "Add", "Stop")

func lastName(e ast.Expr) string {
	switch v := e.(type) {
	case *ast.Ident:
		return v.Name
	case *ast.SelectorExpr:
		return v.Sel.Name
	case *ast.IndexExpr:
		return lastName(v.X)
	case *ast.UnaryExpr:
		return lastName(v.X)
	case *ast.ParenExpr:
		return lastName(v.X)
	case *ast.StarExpr:
		return lastName(v.X)
	case *ast.CallExpr:
		if len(v.Args) > 0 {
			return lastName(v.Args[0])
		}
		return lastName(v.Fun)
	}
	return "?"
}

// expr returns the tokens of an expression evaluated for its value (reads).
func (w *walker) expr(e ast.Expr) []string {
	if e == nil {
		return nil
	}
	switch v := e.(type) {
	case *ast.SelectorExpr:
		t := w.expr(v.X)
		if w.spec.fields[v.Sel.Name] {
			t = append(t, "R:"+v.Sel.Name)
		}
		return t
	case *ast.Ident:
		if w.spec.fields[v.Name] && v.Obj != nil && v.Obj.Kind == ast.Var && false {
			return []string{"R:" + v.Name}
		}
		return nil
	case *ast.CallExpr:
		return w.call(v)
	case *ast.UnaryExpr:
		if v.Op == token.ARROW {
			return append(w.exprNoRead(v.X), "recv:"+lastName(v.X))
		}
		if v.Op == token.AND {
			return w.exprNoRead(v.X)
		}
		return w.expr(v.X)
	case *ast.BinaryExpr:
		return append(w.expr(v.X), w.expr(v.Y)...)
	case *ast.ParenExpr:
		return w.expr(v.X)
	case *ast.StarExpr:
		// a plain load through a tracked pointer variable (*addr)
		if id, ok := v.X.(*ast.Ident); ok && w.spec.fields[id.Name] {
			return []string{"R:*" + id.Name}
		}
		return w.expr(v.X)
	case *ast.IndexExpr:
		return append(w.expr(v.X), w.expr(v.Index)...)
	case *ast.SliceExpr:
		return w.expr(v.X)
	case *ast.TypeAssertExpr:
		return w.expr(v.X)
	case *ast.CompositeLit:
		var t []string
		if id, ok := v.Type.(*ast.Ident); ok && w.spec.allocs[id.Name] {
			t = append(t, "new:"+id.Name)
		}
		for _, el := range v.Elts {
			if kv, ok := el.(*ast.KeyValueExpr); ok {
				t = append(t, w.expr(kv.Value)...)
			} else {
				t = append(t, w.expr(el)...)
			}
		}
		return t
	case *ast.FuncLit:
		inner := w.block(v.Body.List)
		if len(inner) == 0 {
			return nil
		}
		return append(append([]string{"func{"}, inner...), "}")
	case *ast.KeyValueExpr:
		return w.expr(v.Value)
	}
	return nil
}

// exprNoRead: tokens of sub-expressions of an address-taken / channel operand, without
// counting the final selector as a plain read.
func (w *walker) exprNoRead(e ast.Expr) []string {
	switch v := e.(type) {
	case *ast.SelectorExpr:
		return w.expr(v.X)
	case *ast.IndexExpr:
		return append(w.exprNoRead(v.X), w.expr(v.Index)...)
	case *ast.ParenExpr:
		return w.exprNoRead(v.X)
	}
	return w.expr(e)
}

func (w *walker) call(c *ast.CallExpr) []string {
	var t []string
	// atomic.X(&a.f, ...)
	if sel, ok := c.Fun.(*ast.SelectorExpr); ok {
		if id, ok := sel.X.(*ast.Ident); ok && id.Name == "atomic" {
			if len(c.Args) > 0 {
				t = append(t, w.exprNoRead(c.Args[0])...)
			}
			for _, a := range c.Args[1:] {
				t = append(t, w.expr(a)...)
			}
			name := "?"
			if len(c.Args) > 0 {
				name = lastName(c.Args[0])
			}
			return append(t, "A:"+sel.Sel.Name+":"+name)
		}
		if syncMethods[sel.Sel.Name] && w.spec.fields[lastName(sel.X)] {
			t = append(t, w.exprNoRead(sel.X)...)
			for _, a := range c.Args {
				t = append(t, w.expr(a)...)
			}
			return append(t, "S:"+lastName(sel.X)+"."+sel.Sel.Name)
		}
		if w.spec.calls[sel.Sel.Name] {
			t = append(t, w.expr(sel.X)...)
			for _, a := range c.Args {
				t = append(t, w.expr(a)...)
			}
			return append(t, "C:"+sel.Sel.Name)
		}
		t = append(t, w.expr(sel.X)...)
	} else if id, ok := c.Fun.(*ast.Ident); ok {
		if id.Name == "verifYield" {
			return nil
		}
		if id.Name == "close" && len(c.Args) == 1 {
			return append(w.exprNoRead(c.Args[0]), "close:"+lastName(c.Args[0]))
		}
		if id.Name == "len" || id.Name == "cap" {
			if len(c.Args) == 1 && w.spec.fields[lastName(c.Args[0])] {
				return append(w.exprNoRead(c.Args[0]), id.Name+":"+lastName(c.Args[0]))
			}
		}
		if w.spec.calls[id.Name] {
			for _, a := range c.Args {
				t = append(t, w.expr(a)...)
			}
			return append(t, "C:"+id.Name)
		}
	} else {
		t = append(t, w.expr(c.Fun)...)
	}
	for _, a := range c.Args {
		t = append(t, w.expr(a)...)
	}
	return t
}

func (w *walker) lhs(e ast.Expr) []string {
	switch v := e.(type) {
	case *ast.SelectorExpr:
		t := w.expr(v.X)
		if w.spec.fields[v.Sel.Name] {
			t = append(t, "W:"+v.Sel.Name)
		}
		return t
	case *ast.IndexExpr:
		t := append(w.exprNoRead(v.X), w.expr(v.Index)...)
		if w.spec.fields[lastName(v.X)] {
			t = append(t, "W:"+lastName(v.X)+"[]")
		}
		return t
	case *ast.StarExpr:
		// a plain store through a tracked pointer variable (*addr = v)
		if id, ok := v.X.(*ast.Ident); ok && w.spec.fields[id.Name] {
			return []string{"W:*" + id.Name}
		}
		return w.expr(v.X)
	}
	return nil
}

func wrap(head string, inner []string) []string {
	if len(inner) == 0 {
		return nil
	}
	return append(append([]string{head + "{"}, inner...), "}")
}

func (w *walker) block(stmts []ast.Stmt) []string {
	var t []string
	for _, s := range stmts {
		t = append(t, w.stmt(s)...)
	}
	return t
}

func (w *walker) stmt(s ast.Stmt) []string {
	switch v := s.(type) {
	case nil:
		return nil
	case *ast.ExprStmt:
		return w.expr(v.X)
	case *ast.AssignStmt:
		var t []string
		for _, r := range v.Rhs {
			t = append(t, w.expr(r)...)
		}
		for _, l := range v.Lhs {
			t = append(t, w.lhs(l)...)
		}
		return t
	case *ast.IncDecStmt:
		return append(w.expr(v.X), w.lhs(v.X)...)
	case *ast.DeclStmt:
		var t []string
		if gd, ok := v.Decl.(*ast.GenDecl); ok {
			for _, sp := range gd.Specs {
				if vs, ok := sp.(*ast.ValueSpec); ok {
					for _, val := range vs.Values {
						t = append(t, w.expr(val)...)
					}
				}
			}
		}
		return t
	case *ast.ReturnStmt:
		var t []string
		for _, r := range v.Results {
			t = append(t, w.expr(r)...)
		}
		return append(t, "ret")
	case *ast.BlockStmt:
		return w.block(v.List)
	case *ast.IfStmt:
		t := w.stmt(v.Init)
		cond := w.expr(v.Cond)
		body := w.block(v.Body.List)
		var els []string
		if v.Else != nil {
			els = w.stmt(v.Else)
		}
		if len(cond)+len(body)+len(els) == 0 {
			return t
		}
		t = append(t, "if(")
		t = append(t, cond...)
		t = append(t, "){")
		t = append(t, body...)
		t = append(t, "}")
		if len(els) > 0 {
			t = append(t, "else{")
			t = append(t, els...)
			t = append(t, "}")
		}
		return t
	case *ast.ForStmt:
		inner := append(w.stmt(v.Init), w.expr(v.Cond)...)
		inner = append(inner, w.block(v.Body.List)...)
		inner = append(inner, w.stmt(v.Post)...)
		return wrap("for", inner)
	case *ast.RangeStmt:
		inner := append(w.expr(v.X), w.block(v.Body.List)...)
		return wrap("for", inner)
	case *ast.SwitchStmt:
		inner := append(w.stmt(v.Init), w.expr(v.Tag)...)
		for _, c := range v.Body.List {
			cc := c.(*ast.CaseClause)
			var ct []string
			for _, e := range cc.List {
				ct = append(ct, w.expr(e)...)
			}
			ct = append(ct, w.block(cc.Body)...)
			inner = append(inner, wrap("case", ct)...)
		}
		return wrap("switch", inner)
	case *ast.SelectStmt:
		var inner []string
		for _, c := range v.Body.List {
			cc := c.(*ast.CommClause)
			var ct []string
			if cc.Comm == nil {
				ct = append(ct, "default")
			} else {
				ct = append(ct, w.stmt(cc.Comm)...)
			}
			ct = append(ct, w.block(cc.Body)...)
			inner = append(inner, wrap("case", ct)...)
		}
		return wrap("select", inner)
	case *ast.SendStmt:
		t := append(w.exprNoRead(v.Chan), w.expr(v.Value)...)
		return append(t, "send:"+lastName(v.Chan))
	case *ast.GoStmt:
		return wrap("go", w.call(v.Call))
	case *ast.DeferStmt:
		return wrap("defer", w.call(v.Call))
	case *ast.LabeledStmt:
		return w.stmt(v.Stmt)
	}
	return nil
}

func main() {
	if len(os.Args) != 3 {
		fmt.Fprintln(os.Stderr, "usage: accesses <repo-dir> <out-file>")
		os.Exit(2)
	}
	var lines []string
	for _, sp := range specs {
		fset := token.NewFileSet()
		f, err := parser.ParseFile(fset, filepath.Join(os.Args[1], sp.path), nil, 0)
		if err != nil {
			lines = append(lines, sp.path+"|PARSE-ERROR "+err.Error())
			continue
		}
		w := &walker{spec: sp}
		for _, d := range f.Decls {
			fd, ok := d.(*ast.FuncDecl)
			if !ok || fd.Body == nil {
				continue
			}
			name := fd.Name.Name
			if fd.Recv != nil && len(fd.Recv.List) > 0 {
				name = lastName(fd.Recv.List[0].Type) + "." + name
			}
			toks := w.block(fd.Body.List)
			if len(toks) == 0 {
				continue
			}
			lines = append(lines, sp.path+":"+name+"|"+strings.Join(toks, " "))
		}
	}
	sort.Strings(lines)
	if err := os.WriteFile(os.Args[2], []byte(strings.Join(lines, "\n")+"\n"), 0o644); err != nil {
		panic(err)
	}
}
