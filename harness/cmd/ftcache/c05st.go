package main

import (
	"errors"
	"fmt"
	"strconv"
	"time"

	"github.com/lixianmin/got/cachex"
)

// c05st <normalExpire> <errorExpire> <err 0|1> <past> : the status arithmetic of getFutureStatus on int64.
//
// A cache without workers and without ticker (so every expiry in (0, 2^63) can be configured); Set stores a
// completed result, VerifShift back-dates it by exactly <past> ns (under faketime no time passes between the
// calls, so time.Since is exactly <past>). The classification is read off the public behaviour:
//   Get2 returns the pair                 <=> good or expired (rotted: (nil, nil), no load is in flight)
//   Load returns the very same Future     <=> good or expired
//   Load enqueued a job                   <=> expired or rotted
// c05new <normalExpire> : does cachex.NewCache start with that expiry (time.NewTicker(4*E) panics for a
// non-positive period)?
func init() {
	register("c05st", func(toks []string) string {
		ne, _ := strconv.ParseInt(toks[0], 10, 64)
		ee, _ := strconv.ParseInt(toks[1], 10, 64)
		past, _ := strconv.ParseInt(toks[3], 10, 64)
		var e error
		if toks[2] == "1" {
			e = errors.New("boom")
		}
		c := cachex.VerifNewCacheNoWorkers(cachex.WithExpire(time.Duration(ne), time.Duration(ee)))
		c.Set("k", 7, e)
		f := cachex.VerifPeek(c, "k")
		cachex.VerifShift(f, time.Duration(past))
		v, ge := c.Get2("k")
		served := v == 7 && ge == e
		nothing := v == nil && ge == nil
		g := c.Load("k", func(key any) (any, error) { return 8, nil })
		jobs := cachex.VerifQueueLen(c)
		st := "?"
		switch {
		case served && g == f && jobs == 0:
			st = "good"
		case served && g == f && jobs == 1:
			st = "expired"
		case nothing && g != f && jobs == 1:
			st = "rotted"
		default:
			st = fmt.Sprintf("inconsistent(get2=%v,%v same=%v jobs=%d)", v, ge, g == f, jobs)
		}
		return "st=" + st
	})
	register("c05new", func(toks []string) (out string) {
		ne, _ := strconv.ParseInt(toks[0], 10, 64)
		defer func() {
			if r := recover(); r != nil {
				out = "new=panic"
			}
		}()
		c := cachex.NewCache(cachex.WithExpire(time.Duration(ne), 1))
		_ = c
		return "new=ok"
	})
}
