// Command ftcache is the faketime trace-validation vehicle for cachex (C04, C05, C06;
// DESIGN.md 4.3). Build with -tags "verif faketime": time.Now, timers, tickers and Sleep run
// on the playground clock, which advances only when every goroutine is blocked, so the call
// instants of a script are inputs. It reads one timed script per line from the cases file,
// runs it against the real cachex API and writes one log line per script to the output file.
package main

import (
	"bufio"
	"fmt"
	"os"
	"strings"
)

type handler func(toks []string) string

var handlers = map[string]handler{}

func register(tag string, h handler) { handlers[tag] = h }

func main() {
	if len(os.Args) != 3 {
		fmt.Fprintln(os.Stderr, "usage: ftcache <cases> <out>")
		os.Exit(2)
	}
	in, err := os.Open(os.Args[1])
	if err != nil {
		panic(err)
	}
	defer in.Close()
	out, err := os.Create(os.Args[2])
	if err != nil {
		panic(err)
	}
	w := bufio.NewWriterSize(out, 1<<20)
	sc := bufio.NewScanner(in)
	sc.Buffer(make([]byte, 1<<20), 1<<28)
	for sc.Scan() {
		toks := strings.Fields(sc.Text())
		if len(toks) == 0 {
			continue
		}
		h, ok := handlers[toks[0]]
		if !ok {
			fmt.Fprintln(w, "BADCASE")
			continue
		}
		fmt.Fprintln(w, safe(h, toks[1:]))
	}
	w.Flush()
	out.Close()
}

// safe turns a Go panic on the handler's goroutine into the observable "PANIC".
func safe(h handler, toks []string) (res string) {
	defer func() {
		if r := recover(); r != nil {
			res = "PANIC " + strings.ReplaceAll(fmt.Sprint(r), "\n", " ")
		}
	}()
	return h(toks)
}
