package main

import (
	"fmt"
	"reflect"
	"runtime"
	"strconv"
	"strings"
	"sync"
	"time"
	"unsafe"

	"github.com/lixianmin/got/cachex"
	"github.com/lixianmin/got/loom"
)

// Script line (tokens after the tag "ftc"):
//   ne=<ns> ee=<ns> par=<n> jcs=<n> trials=<n> wd=<ns> end=<ns>
//   keys=<type>:<value>,...            key id = position; types int,int8..uint64,string
//   ld=<dur>.<hasval>.<err>,...|...    per key: behaviour of the 1st, 2nd, ... loader invocation
//                                      (the last entry repeats); value = (kid+1)*100000+j+1 or nil
//   opts=<o>,<o>,...|-                 the option list passed to NewCache, in order: E<normal>:<error> = WithExpire,
//                                      P<n> = WithParallel, J<n> = WithJobChanSize; "-" = NewCache() without options.
//                                      Without an opts token: WithExpire(ne,ee), WithParallel(par), WithJobChanSize(jcs).
//                                      ne/ee/par/jcs are then only what the caller EXPECTS; the harness does not use them.
//   acts=<t>/<kind>/<args>;...         L/k  Load            G/k  Cache.Get2     g/k  Cache.Get1
//                                      S/k/v/e  Set         W/a  Future.Get2 on the Future that
//                                      action a's Load returned      w/a  Future.Get1 on it
//                                      C/0  a garbage collection while the cache is referenced and in use: runtime.GC(),
//                                           1 ns of virtual time (the finalizer goroutine runs), runtime.GC()
//                                      D/0  the script drops its only reference to the cache (no cache call may follow), then
//                                           the same two collections: Futures already obtained must still resolve
// Tag "ftm": several scripts separated by the token "||": one cache per script, created in that order in ONE process,
// all scripts then run concurrently on the same virtual time line; the logs are joined by " || ".
// At virtual instant end every Future returned by a Load is awaited once more (entries "rf").
// Log entries (one line per trial, trials joined by " ## "), stamps in virtual ns since start:
//   c,a,t         action a calls          rL,a,t,fut   Load returned Future number fut
//   rG,a,t,v,e    Get2-style return       rg,a,t,v     Get1-style return      rS,a,t
//   ls,k,j,t      loader invocation j of key k starts        le,k,j,t,v,e   ... returns (v,e)
//   rf,a,t,v,e    final await of action a's Future
//   sh,k,idx      loom shard index of key k
//   rC,a,t        collection action a done
//   HANG          the virtual-time watchdog fired with calls outstanding;  u,a = unfinished action

type codeErr int

func (e codeErr) Error() string { return "e" + strconv.Itoa(int(e)) }

func mkErr(code int) error {
	if code == 0 {
		return nil
	}
	return codeErr(code)
}

func errCode(e error) string {
	if e == nil {
		return "0"
	}
	if c, ok := e.(codeErr); ok {
		return strconv.Itoa(int(c))
	}
	return "?" + e.Error()
}

func valStr(v any) string {
	if v == nil {
		return "nil"
	}
	return fmt.Sprint(v)
}

func mkVal(v int) any {
	if v == 0 {
		return nil
	}
	return v
}

func mkKey(ty, val string) any {
	switch ty {
	case "string":
		return val
	case "uint64":
		u, err := strconv.ParseUint(val, 10, 64)
		if err != nil {
			panic("bad key " + val)
		}
		return u
	}
	n, err := strconv.ParseInt(val, 10, 64)
	if err != nil {
		panic("bad key " + val)
	}
	switch ty {
	case "int":
		return int(n)
	case "int8":
		return int8(n)
	case "int16":
		return int16(n)
	case "int32":
		return int32(n)
	case "int64":
		return n
	case "uint8":
		return uint8(n)
	case "uint16":
		return uint16(n)
	case "uint32":
		return uint32(n)
	}
	panic("bad key type " + ty)
}

type ldSpec struct {
	dur    time.Duration
	hasVal bool
	err    int
}

type action struct {
	t    time.Duration
	kind string
	k    int // key id, or referenced action for W/w
	v, e int
}

type script struct {
	ne, ee, wd, end time.Duration
	par, jcs        int
	trials          int
	keys            []any
	opts            []cachex.Option
	hasOpts         bool
	ld              [][]ldSpec
	acts            []action
}

func atoi(s string) int {
	v, err := strconv.ParseInt(s, 10, 64)
	if err != nil {
		panic("bad int " + s)
	}
	return int(v)
}

func parseScript(toks []string) *script {
	sc := &script{trials: 1}
	for _, t := range toks {
		i := strings.IndexByte(t, '=')
		if i < 0 {
			panic("bad token " + t)
		}
		k, v := t[:i], t[i+1:]
		switch k {
		case "ne":
			sc.ne = time.Duration(atoi(v))
		case "ee":
			sc.ee = time.Duration(atoi(v))
		case "wd":
			sc.wd = time.Duration(atoi(v))
		case "end":
			sc.end = time.Duration(atoi(v))
		case "par":
			sc.par = atoi(v)
		case "jcs":
			sc.jcs = atoi(v)
		case "trials":
			sc.trials = atoi(v)
		case "opts":
			sc.hasOpts = true
			if v == "-" || v == "" {
				break
			}
			for _, o := range strings.Split(v, ",") {
				switch o[0] {
				case 'E':
					j := strings.IndexByte(o, ':')
					sc.opts = append(sc.opts, cachex.WithExpire(time.Duration(atoi(o[1:j])), time.Duration(atoi(o[j+1:]))))
				case 'P':
					sc.opts = append(sc.opts, cachex.WithParallel(atoi(o[1:])))
				case 'J':
					sc.opts = append(sc.opts, cachex.WithJobChanSize(atoi(o[1:])))
				default:
					panic("bad option " + o)
				}
			}
		case "keys":
			for _, kv := range strings.Split(v, ",") {
				j := strings.IndexByte(kv, ':')
				sc.keys = append(sc.keys, mkKey(kv[:j], kv[j+1:]))
			}
		case "ld":
			for _, ks := range strings.Split(v, "|") {
				var l []ldSpec
				for _, s := range strings.Split(ks, ",") {
					f := strings.Split(s, ".")
					l = append(l, ldSpec{time.Duration(atoi(f[0])), f[1] == "1", atoi(f[2])})
				}
				sc.ld = append(sc.ld, l)
			}
		case "acts":
			if v == "" {
				break
			}
			for _, s := range strings.Split(v, ";") {
				f := strings.Split(s, "/")
				a := action{t: time.Duration(atoi(f[0])), kind: f[1], k: atoi(f[2])}
				if a.kind == "S" {
					a.v, a.e = atoi(f[3]), atoi(f[4])
				}
				sc.acts = append(sc.acts, a)
			}
		default:
			panic("unknown field " + k)
		}
	}
	if len(sc.ld) != len(sc.keys) {
		panic("ld/keys length mismatch")
	}
	return sc
}

func sleepUntil(target time.Time) {
	if d := time.Until(target); d > 0 {
		time.Sleep(d)
	}
}

// innerOf returns the object embedded in the wrapper NewCache hands out (the wrapper carries the finalizer; methods
// promoted from the embedded pointer run with the inner object as receiver), without keeping the wrapper reachable.
func innerOf(c cachex.Cache) cachex.Cache {
	v := reflect.ValueOf(c)
	if v.Kind() != reflect.Ptr || v.Elem().Kind() != reflect.Struct || v.Elem().NumField() != 1 || v.Elem().Field(0).Kind() != reflect.Ptr {
		return nil // not the wrapper shape: later calls of the script fail visibly
	}
	f := v.Elem().Field(0)
	in, ok := reflect.NewAt(f.Type().Elem(), unsafe.Pointer(f.Pointer())).Interface().(cachex.Cache)
	if !ok {
		return nil
	}
	return in
}

func newCache(sc *script) cachex.Cache {
	if sc.hasOpts {
		return cachex.NewCache(sc.opts...)
	}
	return cachex.NewCache(cachex.WithExpire(sc.ne, sc.ee), cachex.WithParallel(sc.par), cachex.WithJobChanSize(sc.jcs))
}

func collect() {
	runtime.GC()
	time.Sleep(time.Nanosecond)
	runtime.GC()
}

func runTrial(sc *script) string {
	return runTrialOn(sc, newCache(sc), time.Now())
}

func runTrialOn(sc *script, cache cachex.Cache, start time.Time) string {
	var mu sync.Mutex
	var log []string
	stamp := func() int64 { return int64(time.Since(start)) }
	emit := func(format string, args ...any) { // caller holds mu
		log = append(log, fmt.Sprintf(format, args...))
	}
	sharding := loom.NewSharding()
	for k, key := range sc.keys {
		idx, _ := sharding.GetShardingIndex(key)
		emit("sh,%d,%d", k, idx)
	}

	inv := make([]int, len(sc.keys))
	loaders := make([]cachex.Loader, len(sc.keys))
	for k := range sc.keys {
		k := k
		loaders[k] = func(key any) (any, error) {
			mu.Lock()
			j := inv[k]
			inv[k]++
			emit("ls,%d,%d,%d", k, j, stamp())
			mu.Unlock()
			spec := sc.ld[k][len(sc.ld[k])-1]
			if j < len(sc.ld[k]) {
				spec = sc.ld[k][j]
			}
			if key != sc.keys[k] {
				panic(fmt.Sprintf("loader of key %d invoked with key %v", k, key))
			}
			time.Sleep(spec.dur)
			var v any
			if spec.hasVal {
				v = (k+1)*100000 + j + 1
			}
			e := mkErr(spec.err)
			mu.Lock()
			emit("le,%d,%d,%d,%s,%s", k, j, stamp(), valStr(v), errCode(e))
			mu.Unlock()
			return v, e
		}
	}

	// Future identities numbered by first appearance
	futIds := map[*cachex.Future]int{}
	futOf := make([]*cachex.Future, len(sc.acts))
	loadDone := make([]chan struct{}, len(sc.acts))
	finished := make([]bool, len(sc.acts))
	for i := range loadDone {
		loadDone[i] = make(chan struct{})
	}
	var wg sync.WaitGroup
	for i := range sc.acts {
		i := i
		a := sc.acts[i]
		wg.Add(1)
		go func() {
			defer wg.Done()
			defer func() {
				if r := recover(); r != nil {
					mu.Lock()
					emit("PANIC,%d,%s", i, strings.ReplaceAll(strings.ReplaceAll(fmt.Sprint(r), " ", "_"), ",", "_"))
					mu.Unlock()
				}
			}()
			sleepUntil(start.Add(a.t))
			switch a.kind {
			case "L":
				mu.Lock()
				emit("c,%d,%d", i, stamp())
				mu.Unlock()
				f := cache.Load(sc.keys[a.k], loaders[a.k])
				mu.Lock()
				id, ok := futIds[f]
				if !ok {
					id = len(futIds)
					futIds[f] = id
				}
				futOf[i] = f
				emit("rL,%d,%d,%d", i, stamp(), id)
				finished[i] = true
				mu.Unlock()
				close(loadDone[i])
				// final await of this Future
				sleepUntil(start.Add(sc.end))
				v, e := f.Get2()
				mu.Lock()
				emit("rf,%d,%d,%s,%s", i, stamp(), valStr(v), errCode(e))
				mu.Unlock()
			case "G":
				mu.Lock()
				emit("c,%d,%d", i, stamp())
				mu.Unlock()
				v, e := cache.Get2(sc.keys[a.k])
				mu.Lock()
				emit("rG,%d,%d,%s,%s", i, stamp(), valStr(v), errCode(e))
				finished[i] = true
				mu.Unlock()
			case "g":
				mu.Lock()
				emit("c,%d,%d", i, stamp())
				mu.Unlock()
				v := cache.Get1(sc.keys[a.k])
				mu.Lock()
				emit("rg,%d,%d,%s", i, stamp(), valStr(v))
				finished[i] = true
				mu.Unlock()
			case "S":
				mu.Lock()
				emit("c,%d,%d", i, stamp())
				mu.Unlock()
				cache.Set(sc.keys[a.k], mkVal(a.v), mkErr(a.e))
				mu.Lock()
				emit("rS,%d,%d", i, stamp())
				finished[i] = true
				mu.Unlock()
			case "C":
				mu.Lock()
				emit("c,%d,%d", i, stamp())
				mu.Unlock()
				collect()
				mu.Lock()
				emit("rC,%d,%d", i, stamp())
				finished[i] = true
				mu.Unlock()
			case "X":
				// a call the cache rejects: Load / Get2 / Set with a key of an unhashable type (outside every property's
				// quantifier; it panics on the caller's goroutine, the caller recovers). Logged like a collection: not an
				// event of the cache. What the properties say about the OTHER calls of the script still holds.
				mu.Lock()
				emit("c,%d,%d", i, stamp())
				mu.Unlock()
				bad := []byte("user:42")
				func() {
					defer func() { _ = recover() }()
					switch a.k % 3 {
					case 0:
						cache.Load(bad, func(any) (any, error) { return nil, nil })
					case 1:
						cache.Get2(bad)
					default:
						cache.Set(bad, 1, nil)
					}
				}()
				mu.Lock()
				emit("rC,%d,%d", i, stamp())
				finished[i] = true
				mu.Unlock()
			case "D":
				mu.Lock()
				emit("c,%d,%d", i, stamp())
				// the script drops the object NewCache returned; calls it makes afterwards go to the inner object, as a
				// call does that was already running (its receiver is the inner object) when the handle was dropped
				cache = innerOf(cache)
				mu.Unlock()
				collect()
				mu.Lock()
				emit("rC,%d,%d", i, stamp())
				finished[i] = true
				mu.Unlock()
			case "W", "w":
				<-loadDone[a.k]
				mu.Lock()
				f := futOf[a.k]
				emit("c,%d,%d", i, stamp())
				mu.Unlock()
				if a.kind == "W" {
					v, e := f.Get2()
					mu.Lock()
					emit("rG,%d,%d,%s,%s", i, stamp(), valStr(v), errCode(e))
					finished[i] = true
					mu.Unlock()
				} else {
					v := f.Get1()
					mu.Lock()
					emit("rg,%d,%d,%s", i, stamp(), valStr(v))
					finished[i] = true
					mu.Unlock()
				}
			default:
				panic("bad action kind " + a.kind)
			}
		}()
	}
	done := make(chan struct{})
	go func() { wg.Wait(); close(done) }()
	wdTimer := time.NewTimer(sc.wd) // a pending timer: the runtime never sees "all goroutines asleep"
	hung := false
	select {
	case <-done:
		wdTimer.Stop()
	case <-wdTimer.C:
		hung = true
	}
	mu.Lock()
	if hung {
		emit("HANG")
		for i, f := range finished {
			if !f {
				emit("u,%d", i)
			}
		}
	}
	res := strings.Join(log, " ")
	mu.Unlock()
	runtime.KeepAlive(&cache) // the script's reference to the cache lives until here (unless a D action dropped it)
	// let the cache's finalizer stop its ticker and workers
	cache = nil
	loaders = nil
	futOf = nil
	futIds = nil
	runtime.GC()
	runtime.GC()
	time.Sleep(time.Nanosecond)
	return res
}

func splitScripts(toks []string) [][]string {
	var out [][]string
	var cur []string
	for _, t := range toks {
		if t == "||" {
			out = append(out, cur)
			cur = nil
		} else if t != "ftc" {
			cur = append(cur, t)
		}
	}
	return append(out, cur)
}

func init() {
	register("ftm", func(toks []string) string {
		var scs []*script
		for _, part := range splitScripts(toks) {
			scs = append(scs, parseScript(part))
		}
		caches := make([]cachex.Cache, len(scs))
		for i, sc := range scs { // creation order = script order
			caches[i] = newCache(sc)
		}
		start := time.Now()
		outs := make([]string, len(scs))
		var wg sync.WaitGroup
		for i := range scs {
			i := i
			c := caches[i]
			caches[i] = nil
			wg.Add(1)
			go func() {
				defer wg.Done()
				defer func() {
					if r := recover(); r != nil {
						outs[i] = "PANIC," + strings.ReplaceAll(strings.ReplaceAll(fmt.Sprint(r), " ", "_"), ",", "_")
					}
				}()
				outs[i] = runTrialOn(scs[i], c, start)
			}()
		}
		wg.Wait()
		return strings.Join(outs, " || ")
	})
}

func init() {
	register("ftc", func(toks []string) string {
		sc := parseScript(toks)
		outs := make([]string, 0, sc.trials)
		for i := 0; i < sc.trials; i++ {
			outs = append(outs, runTrial(sc))
		}
		return strings.Join(outs, " ## ")
	})
}

// fsh <count|0> <type> <value | hex bytes of a string key> -> "<shard index> <shard count>"
func init() {
	register("fsh", func(toks []string) string {
		val := ""
		if len(toks) > 2 {
			val = toks[2]
		}
		ty := toks[1]
		if ty == "string" {
			b := make([]byte, len(val)/2)
			for i := range b {
				n, err := strconv.ParseUint(val[2*i:2*i+2], 16, 8)
				if err != nil {
					panic("bad hex " + val)
				}
				b[i] = byte(n)
			}
			val = string(b)
		}
		sh := loom.NewSharding()
		if c := atoi(toks[0]); c > 0 {
			sh = loom.NewSharding(loom.WithSharingCount(c))
		}
		idx, _ := sh.GetShardingIndex(mkKey(ty, val))
		return fmt.Sprintf("%d %d", idx, sh.GetShardingCount())
	})
}
