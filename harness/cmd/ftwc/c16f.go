package main

import (
	"fmt"
	"strconv"
	"strings"
	"time"

	"github.com/lixianmin/got/loom"
)

// c16f mode=before|after|tie|closed|closedinit|cbslow|initrace timeout=<ns> delta=<ns>
//
// Built with -tags "verif faketime": the virtual clock advances only when every goroutine
// is blocked, so "the close happens delta ns before / after the timeout" is exact.
// Output: res=<bool> ns=<virtual ns from the WaitUtil call to its return> closed=<IsClosed after>
func init() {
	register("c16f", func(toks []string) string {
		m := map[string]string{}
		for _, t := range toks[1:] {
			if i := strings.IndexByte(t, '='); i >= 0 {
				m[t[:i]] = t[i+1:]
			}
		}
		atoi := func(s string) time.Duration {
			v, err := strconv.ParseInt(s, 10, 64)
			if err != nil {
				panic("bad int " + s)
			}
			return time.Duration(v)
		}
		timeout, delta := atoi(m["timeout"]), atoi(m["delta"])
		var wc loom.WaitClose
		type res struct {
			ok bool
			d  time.Duration
		}
		out := make(chan res, 1)
		wait := func(d time.Duration) {
			go func() {
				t0 := time.Now()
				r := wc.WaitUtil(d)
				out <- res{r, time.Since(t0)}
			}()
		}
		done := make(chan struct{})
		closeAfter := func(d time.Duration, cb func() error) {
			go func() {
				time.Sleep(d)
				wc.Close(cb)
				close(done)
			}()
		}
		switch m["mode"] {
		case "before":
			wait(timeout)
			closeAfter(timeout-delta, nil)
		case "after":
			wait(timeout)
			closeAfter(timeout+delta, nil)
		case "tie":
			wait(timeout)
			closeAfter(timeout, nil)
		case "closed":
			wc.Close(nil)
			close(done)
			wait(timeout)
		case "closedinit":
			wc.C()
			wc.Close(nil)
			close(done)
			wait(timeout)
		case "cbslow":
			// the channel is closed before the callback runs: WaitUtil sees the close at
			// timeout-delta although Close itself returns only after the timeout
			wait(timeout)
			closeAfter(timeout-delta, func() error { time.Sleep(2 * delta); return nil })
		case "initrace":
			// C() initialises the channel first, the waiter uses it, Close closes that channel
			c := wc.C()
			wait(timeout)
			closeAfter(timeout-delta, nil)
			defer func() { <-c }()
		default:
			panic("bad mode " + m["mode"])
		}
		var r res
		select {
		case r = <-out:
		case <-time.After(timeout + delta + time.Hour):
			return "res=HANG ns=0 closed=false"
		}
		<-done
		return fmt.Sprintf("res=%v ns=%d closed=%v", r.ok, int64(r.d), wc.IsClosed())
	})
}
