//go:build !antshooks

package main

// The ants dispatch-steps cases (c07s) need the ants verif hooks (tools/hooks/
// ants-verif-hooks.patch); without them the tag is answered NOHOOKS.
func init() {
	register("c07s", func([]string) string { return "NOHOOKS" })
}
