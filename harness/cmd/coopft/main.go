// Command coopft runs cooperative-scheduler vehicles ON THE VIRTUAL CLOCK (build tags
// "verif faketime", DESIGN.md 4.2 + 4.3): every logical thread is parked at a yield point, so the
// playground clock advances only when the one running thread blocks on something a timer ends.
// Same line protocol as cmd/coop: one case per line of the cases file, one canonical result line
// per case in the output file (stdout/stderr get playback framing under faketime).
package main

import (
	"bufio"
	"fmt"
	"os"
	"strings"
	"time"
)

type handler func(toks []string) string

var handlers = map[string]handler{}

func register(tag string, h handler) { handlers[tag] = h }

func main() {
	if len(os.Args) != 3 {
		fmt.Fprintln(os.Stderr, "usage: coopft <cases> <out>")
		os.Exit(2)
	}
	in, err := os.Open(os.Args[1])
	if err != nil {
		panic(err)
	}
	defer in.Close()
	out, err := os.Create(os.Args[2])
	if err != nil {
		panic(err)
	}
	w := bufio.NewWriterSize(out, 1<<20)
	sc := bufio.NewScanner(in)
	sc.Buffer(make([]byte, 1<<20), 1<<28)
	for sc.Scan() {
		toks := strings.Fields(sc.Text())
		if len(toks) == 0 {
			continue
		}
		h, ok := handlers[toks[0]]
		if !ok {
			fmt.Fprintln(w, "BADCASE")
			continue
		}
		fmt.Fprintln(w, guarded(h, toks))
	}
	w.Flush()
	out.Close()
}

// guarded runs one case under a watchdog ON THE VIRTUAL CLOCK: when a managed goroutine blocks
// for ever inside the library every goroutine is blocked, the clock jumps to the watchdog's
// timer and the case is reported as "HANG" at once (its goroutines leak). The watchdog is far
// beyond every scripted timeout. After maxHangs such cases the rest is answered
// "SKIPPED-AFTER-HANGS".
const caseTimeout = 1000 * time.Second
const maxHangs = 3

var hangs int

func guarded(h handler, toks []string) string {
	if hangs >= maxHangs {
		return "SKIPPED-AFTER-HANGS"
	}
	done := make(chan string, 1)
	go func() { done <- safe(h, toks) }()
	tm := time.NewTimer(caseTimeout)
	defer tm.Stop()
	select {
	case r := <-done:
		return r
	case <-tm.C:
		hangs++
		return "HANG a managed goroutine blocked for ever inside the library (virtual watchdog)"
	}
}

// safe turns a Go panic into the observable "PANIC".
func safe(h handler, toks []string) (res string) {
	defer func() {
		if r := recover(); r != nil {
			res = "PANIC " + strings.ReplaceAll(fmt.Sprint(r), "\n", " ")
		}
	}()
	return h(toks)
}

// kv parses "k=v" tokens into a map (value may be empty).
func kv(toks []string) map[string]string {
	m := map[string]string{}
	for _, t := range toks {
		if i := strings.IndexByte(t, '='); i >= 0 {
			m[t[:i]] = t[i+1:]
		}
	}
	return m
}

func splitNonEmpty(s, sep string) []string {
	if s == "" {
		return nil
	}
	return strings.Split(s, sep)
}
