//go:build antshooks

package main

import (
	"context"
	"errors"
	"fmt"
	"strconv"
	"strings"
	"time"

	"github.com/lixianmin/got/ants"
	"verif/harness/internal/coop"
)

// ants dispatch-steps cases (C07 stream "dispatch-steps"; model coq/models/AntsSteps.v). Needs the
// ants verif hooks (tools/hooks/ants-verif-hooks.patch), build tags "verif faketime antshooks".
//
//	c07s n=<N> progs=<p0;p1;...> sched=<tid,tid,...>
//	  One pool of size N without goroutines of its own (VerifNewPoolNoWorkers). Threads: the
//	  clients (one per program), then N dispatchers (VerifRunDispatcher = the real goDispatchTask
//	  loop), then N inner workers (VerifRunInner = the real goDispatchInnerCallback loop).
//	  progs: ops separated by '.': S<T ns>:<R>:<discardOnBusy>:<onError>:<beh>+<beh>.. = Send with
//	  those options, the i-th handler INVOCATION of the task behaves as beh i:
//	  [y][w]<val>_<err> = yield at the harness site 100 first, wait for ctx.Done() first, then
//	  return (val, err) (0 = nil); G<k> = Get2 on the Task of this thread's k-th Send; X = close.
//	  A step of a thread that cannot proceed (send on the full channel / receive from the empty
//	  one with the pool open, Get2 before wg.Done) is not executed ("blocked"): the harness tells
//	  from VerifLens and from the WgDone steps it has seen. After the schedule every enabled thread
//	  is stepped round-robin (fin), then the pool is closed and again (cfin).
//	  Output: steps=<obs>;.. fin=<tid>:<obs>;.. cfin=<tid>:<obs>;.. end=ok|stuck:<tids>
//	  obs = <ev>/<second select branch taken 0|1>/<len taskChan>,<len innerCallbackChan>/<virtual
//	  ns since the start of the case>/<running handlers>,<onError(errDiscard) calls>/<per Send op:
//	  - (not returned) | D (discarded) | result:err:handler invocations:onError arguments>,..
type asBeh struct {
	yield, wait bool
	val, err    int
}

type asSend struct {
	behs    []asBeh
	started int
	onerrs  []string
}

type asCase struct {
	pool     ants.Pool
	s        *coop.Sched
	n        int
	closed   bool
	handles  [][]ants.Task
	sends    [][]*asSend
	siteTask []ants.Task
	done     map[ants.Task]bool
	running  int
	discards int
	t0       time.Time
}

const asSiteHandler = 100

func asErrStr(err error) string {
	switch {
	case err == nil:
		return "0"
	case errors.Is(err, context.DeadlineExceeded):
		return "-1"
	case ants.IsDiscardError(err):
		return "-2"
	case errors.Is(err, context.Canceled):
		return "-3"
	}
	return strings.TrimPrefix(err.Error(), "e")
}

func asValStr(v any) string {
	switch x := v.(type) {
	case nil:
		return "0"
	case int:
		return strconv.Itoa(x)
	}
	return "?"
}

func asAtoi(s string) int {
	v, err := strconv.ParseInt(s, 10, 64)
	if err != nil {
		panic("bad int " + s)
	}
	return int(v)
}

func asParseBeh(b string) asBeh {
	var r asBeh
	if strings.HasPrefix(b, "y") {
		r.yield = true
		b = b[1:]
	}
	if strings.HasPrefix(b, "w") {
		r.wait = true
		b = b[1:]
	}
	p := strings.Split(b, "_")
	r.val, r.err = asAtoi(p[0]), asAtoi(p[1])
	return r
}

func (c *asCase) handlerOf(so *asSend) ants.Handler {
	return func(ctx context.Context) (any, error) {
		var b asBeh
		if so.started < len(so.behs) {
			b = so.behs[so.started]
		}
		so.started++
		c.running++
		if b.yield {
			c.s.Yield(asSiteHandler)
		}
		if b.wait {
			<-ctx.Done()
		}
		c.running--
		var v any
		var err error
		if b.val != 0 {
			v = b.val
		}
		if b.err != 0 {
			err = errors.New("e" + strconv.Itoa(b.err))
		}
		return v, err
	}
}

func (c *asCase) sendOp(tid int, spec string) coop.Op {
	p := strings.Split(spec, ":")
	timeout, retry, discard, onerr := asAtoi(p[0]), asAtoi(p[1]), p[2] == "1", p[3] == "1"
	so := &asSend{}
	for _, b := range splitNonEmpty(p[4], "+") {
		so.behs = append(so.behs, asParseBeh(b))
	}
	c.sends[tid] = append(c.sends[tid], so)
	return func() string {
		opts := []ants.TaskOption{ants.WithTimeout(time.Duration(timeout)), ants.WithRetry(retry), ants.WithDiscardOnBusy(discard)}
		if onerr {
			opts = append(opts, ants.WithError(func(err error) {
				if ants.IsDiscardError(err) {
					c.discards++
				} else {
					so.onerrs = append(so.onerrs, asErrStr(err))
				}
			}))
		}
		task := c.pool.Send(c.handlerOf(so), opts...)
		c.handles[tid] = append(c.handles[tid], task)
		if _, _, d := ants.VerifTaskState(task); d {
			return "d"
		}
		return "t"
	}
}

func (c *asCase) getOp(tid, k int) coop.Op {
	return func() string {
		if k >= len(c.handles[tid]) {
			return "bad"
		}
		v, err := c.handles[tid][k].Get2()
		return asValStr(v) + ":" + asErrStr(err)
	}
}

func (c *asCase) closeOp() coop.Op {
	return func() string {
		if c.closed {
			return "bad"
		}
		ants.VerifClose(c.pool)
		c.closed = true
		return "closed"
	}
}

func (c *asCase) blocked(t *coop.Thread) bool {
	lt, li, size := ants.VerifLens(c.pool)
	switch t.AtSite {
	case ants.VerifSiteSendEnqueue:
		return lt == size && !c.closed
	case ants.VerifSiteDispatchRecv:
		return lt == 0 && !c.closed
	case ants.VerifSiteInnerEnqueue:
		return li == size && !c.closed
	case ants.VerifSiteInnerRecv:
		return li == 0 && !c.closed
	case ants.VerifSiteGetWait:
		return !c.done[c.siteTask[t.ID]]
	}
	return false
}

func (c *asCase) obs(ev coop.Event, b bool) string {
	var sb strings.Builder
	switch ev.Kind {
	case coop.KYield:
		sb.WriteString("y" + strconv.Itoa(ev.Site))
	default:
		sb.WriteString(ev.String())
	}
	if b {
		sb.WriteString("/1/")
	} else {
		sb.WriteString("/0/")
	}
	lt, li, _ := ants.VerifLens(c.pool)
	fmt.Fprintf(&sb, "%d,%d/%d/%d,%d/", lt, li, time.Since(c.t0).Nanoseconds(), c.running, c.discards)
	first := true
	for tid := range c.sends {
		for j, so := range c.sends[tid] {
			if !first {
				sb.WriteByte(',')
			}
			first = false
			if j >= len(c.handles[tid]) {
				sb.WriteByte('-')
				continue
			}
			v, err, d := ants.VerifTaskState(c.handles[tid][j])
			if d {
				sb.WriteByte('D')
				continue
			}
			fmt.Fprintf(&sb, "%s:%s:%d:%s", asValStr(v), asErrStr(err), so.started, strings.Join(so.onerrs, "+"))
		}
	}
	return sb.String()
}

// step executes one step of thread tid and renders the observation
func (c *asCase) step(tid int) string {
	prev := 0
	if tid >= 0 && tid < len(c.s.Threads) {
		prev = c.s.Threads[tid].AtSite
	}
	var prevTask ants.Task
	if tid >= 0 && tid < len(c.siteTask) {
		prevTask = c.siteTask[tid]
	}
	lt0, li0, _ := ants.VerifLens(c.pool)
	ev := c.s.Step(tid)
	lt1, li1, _ := ants.VerifLens(c.pool)
	b := false
	if ev.Kind == coop.KYield || ev.Kind == coop.KRet {
		switch prev {
		case ants.VerifSiteSendEnqueue:
			b = lt1 == lt0
		case ants.VerifSiteInnerEnqueue:
			b = li1 == li0
		case ants.VerifSiteDispatchRecv, ants.VerifSiteInnerRecv:
			b = ev.Kind == coop.KRet
		case ants.VerifSiteDispatchSelect:
			b = ev.Kind == coop.KYield && ev.Site == ants.VerifSiteStoreTimeout
		case ants.VerifSiteCtxTest:
			b = ev.Kind == coop.KYield && ev.Site == ants.VerifSiteAttemptSendDead
		}
		if prev == ants.VerifSiteWgDone {
			c.done[prevTask] = true
		}
	}
	return c.obs(ev, b)
}

func (c *asCase) round(sb *strings.Builder) {
	first := true
	for n := 0; n < 4096; n++ {
		progressed := false
		for i := range c.s.Threads {
			if c.s.Enabled(i) {
				if !first {
					sb.WriteByte(';')
				}
				first = false
				sb.WriteString(strconv.Itoa(i) + ":" + c.step(i))
				progressed = true
			}
		}
		if !progressed {
			return
		}
	}
}

func init() {
	register("c07s", func(toks []string) string {
		m := kv(toks)
		n := asAtoi(m["n"])
		progSpecs := strings.Split(m["progs"], ";")
		c := &asCase{n: n, done: map[ants.Task]bool{}}
		c.pool = ants.VerifNewPoolNoWorkers(ants.WithSize(n))
		nthr := len(progSpecs) + 2*n
		c.handles = make([][]ants.Task, len(progSpecs))
		c.sends = make([][]*asSend, len(progSpecs))
		c.siteTask = make([]ants.Task, nthr)
		var progs [][]coop.Op
		for tid, ps := range progSpecs {
			var ops []coop.Op
			for _, o := range splitNonEmpty(ps, ".") {
				switch o[0] {
				case 'S':
					ops = append(ops, c.sendOp(tid, o[1:]))
				case 'G':
					ops = append(ops, c.getOp(tid, asAtoi(o[1:])))
				case 'X':
					ops = append(ops, c.closeOp())
				default:
					panic("bad op " + o)
				}
			}
			progs = append(progs, ops)
		}
		for i := 0; i < n; i++ {
			progs = append(progs, []coop.Op{func() string { ants.VerifRunDispatcher(c.pool, context.Background()); return "exit" }})
		}
		for i := 0; i < n; i++ {
			progs = append(progs, []coop.Op{func() string { ants.VerifRunInner(c.pool); return "exit" }})
		}
		c.s = coop.New(progs)
		c.s.Blocked = c.blocked
		ants.VerifYield = func(site int) {
			if t := c.s.Cur(); t != nil {
				c.siteTask[t.ID] = ants.VerifSiteTask
			}
			c.s.Yield(site)
		}
		defer func() { ants.VerifYield = nil }()
		c.t0 = time.Now()
		var sb strings.Builder
		sb.WriteString("steps=")
		for i, t := range splitNonEmpty(m["sched"], ",") {
			if i > 0 {
				sb.WriteByte(';')
			}
			sb.WriteString(c.step(asAtoi(t)))
		}
		sb.WriteString(" fin=")
		c.round(&sb)
		sb.WriteString(" cfin=")
		if !c.closed {
			ants.VerifClose(c.pool)
			c.closed = true
			c.round(&sb)
		}
		var stuck []string
		for i := range c.s.Threads {
			if c.s.Enabled(i) || c.blocked(c.s.Threads[i]) {
				stuck = append(stuck, strconv.Itoa(i))
			}
		}
		if len(stuck) == 0 {
			sb.WriteString(" end=ok")
		} else {
			sb.WriteString(" end=stuck:" + strings.Join(stuck, ","))
		}
		return sb.String()
	})
}
