package main

// C20 -- randx.WeightedSampling.
//
// The function draws its randomness from the GLOBAL math/rand generator
// (rand.Float64()). The global generator is randomly seeded unless rand.Seed is called;
// after rand.Seed(s) it is deterministic (Go 1.23, go.mod "go 1.22": Seed is honoured).
// The harness therefore seeds it, calls the real function, seeds it again with the same
// value and replays the stream to recompute the REFERENCE keys in float64 exactly as
// the fixed code computes them:  ki = lnWeight(w_i) - math.Log(-math.Log(u_i)), lnWeight(w) = math.Log(frac) + exp*Ln2 with (frac, exp) = math.Frexp(w).
//
//   c20keys <seed> <n> <w0> ... <w(n-1)>
//        -> keys=<k0>,<k1>,...          reference keys (replay only, function not called)
//   c20 <seed> <k> <n> W <w...> R <rank...>
//        -> r=[i0,i1,...] keys=<...> calls=<n>     result of the real function + replayed
//           keys; the ranks R (order of the keys relative to each other and to 0.0) are
//           the model's input and are re-checked here against the replayed keys.
//           A Go panic is reported as "PANIC ..." by the framework.
//   c20stat <seed> <trials> <w...>
//        -> counts=[c0,c1,...]          how often WeightedSampling(1, n, w) returned i

import (
	"fmt"
	"math"
	"math/rand"
	"sort"
	"strconv"
	"strings"

	"github.com/lixianmin/got/randx"
)

func parseFloats(toks []string) []float64 {
	r := make([]float64, len(toks))
	for i, t := range toks {
		v, err := strconv.ParseFloat(t, 64)
		if err != nil {
			panic("HARNESS: bad float " + t)
		}
		r[i] = v
	}
	return r
}

func refKeys(seed int64, w []float64) []float64 {
	rand.Seed(seed)
	keys := make([]float64, len(w))
	for i := range w {
		u := rand.Float64()
		frac, exp := math.Frexp(w[i]) // as randx.lnWeight: exact also for subnormal weights
		keys[i] = math.Log(frac) + float64(exp)*math.Ln2 - math.Log(-math.Log(u))
	}
	return keys
}

func fmtKeys(keys []float64) string {
	s := make([]string, len(keys))
	for i, k := range keys {
		s[i] = strconv.FormatFloat(k, 'g', -1, 64)
	}
	return strings.Join(s, ",")
}

// signed dense ranks: order-isomorphic to the keys, rank 0 <=> key == 0.0
func signedRanks(keys []float64) []int {
	vals := append([]float64{0}, keys...)
	sort.Float64s(vals)
	uniq := vals[:0:0]
	for i, v := range vals {
		if i == 0 || v != vals[i-1] {
			uniq = append(uniq, v)
		}
	}
	zero := sort.SearchFloat64s(uniq, 0)
	r := make([]int, len(keys))
	for i, k := range keys {
		r[i] = sort.SearchFloat64s(uniq, k) - zero
	}
	return r
}

func init() {
	register("c20keys", func(toks []string) string {
		seed := int64(atoi(toks[1]))
		n := atoi(toks[2])
		w := parseFloats(toks[3:])
		if len(w) != n {
			panic("HARNESS: weight count")
		}
		k1 := refKeys(seed, w)
		k2 := refKeys(seed, w)
		if fmtKeys(k1) != fmtKeys(k2) {
			return "NONDETERMINISTIC-RAND rand.Seed does not make the global generator reproducible"
		}
		return "keys=" + fmtKeys(k1)
	})
	register("c20", func(toks []string) string {
		seed := int64(atoi(toks[1]))
		k, n := atoi(toks[2]), atoi(toks[3])
		if toks[4] != "W" {
			panic("HARNESS: bad c20 case")
		}
		rpos := -1
		for i := 5; i < len(toks); i++ {
			if toks[i] == "R" {
				rpos = i
				break
			}
		}
		if rpos < 0 {
			panic("HARNESS: bad c20 case")
		}
		w := parseFloats(toks[5:rpos])
		ranks := ints(toks[rpos+1:])
		calls := 0
		rand.Seed(seed)
		res := randx.WeightedSampling(k, n, func(i int) float64 {
			calls++
			if i < 0 || i >= len(w) {
				panic(fmt.Sprintf("HARNESS: getWeight(%d) outside [0,%d)", i, len(w)))
			}
			return w[i]
		})
		keys := refKeys(seed, w)
		if len(ranks) != len(keys) {
			return "RANK-MISMATCH count"
		}
		for i, r := range signedRanks(keys) {
			if r != ranks[i] {
				return "RANK-MISMATCH the ranks of the case are not those of the replayed keys"
			}
		}
		return fmt.Sprintf("r=%s keys=%s calls=%d", fmtInts(res), fmtKeys(keys), calls)
	})
	register("c20stat", func(toks []string) string {
		seed := int64(atoi(toks[1]))
		trials := atoi(toks[2])
		w := parseFloats(toks[3:])
		counts := make([]int, len(w))
		rand.Seed(seed)
		for t := 0; t < trials; t++ {
			r := randx.WeightedSampling(1, len(w), func(i int) float64 { return w[i] })
			if len(r) != 1 || r[0] < 0 || r[0] >= len(w) {
				return fmt.Sprintf("BAD-RESULT %v at trial %d", r, t)
			}
			counts[r[0]]++
		}
		return "counts=" + fmtInts(counts)
	})
}
