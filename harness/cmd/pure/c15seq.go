package main

// C15 -- situations in which several SliceBy calls share something: call SEQUENCES on one
// pair of backing arrays (c15Q), calls made from inside less (modes 6/7 of c15Less), calls
// made concurrently by goroutines on private data (c15G), and the adaptive quicksort
// adversary with a solid prefix (c15A).  "The result of a call is a function of that call's
// keys, values and less only."

import (
	"fmt"
	"runtime"
	"strconv"
	"strings"
	"sync"
	"sync/atomic"

	"github.com/lixianmin/got/sortx"
)

// c15Hook is called by every less closure of the C15 handlers; c15G installs a yield here
// so that concurrent sorts really interleave (also on a single P).
var c15HookOn atomic.Bool

func c15Hook() {
	if c15HookOn.Load() {
		runtime.Gosched()
	}
}

// c15Nested(pad, x, y) decides x < y by SORTING: the inner call sorts the keys
// [y, x, m+pad, ..., m+1] (m = max(x,y)) with values [0, 1, 2, ...] ascending and answers
// "the value that travelled to the front is 1", i.e. x ended first and x != y.
// Coq: srt_less_nested (models/SortSeq.v).
func c15Nested(pad int, x, y int) bool {
	m := x
	if y > m {
		m = y
	}
	ks := []int{y, x}
	for d := pad - 1; d >= 0; d-- {
		ks = append(ks, m+1+d)
	}
	vs := make([]int, len(ks))
	for i := range vs {
		vs[i] = i
	}
	sortx.SliceBy(ks, vs, func(i, j int) bool { return ks[i] < ks[j] })
	return vs[0] == 1
}

func splitBar(toks []string) [][]string {
	var out [][]string
	start := 0
	for i := 0; i <= len(toks); i++ {
		if i == len(toks) || toks[i] == "|" {
			out = append(out, toks[start:i])
			start = i + 1
		}
	}
	return out
}

// c15RunStore runs a sequence of SliceBy calls on sub-slices of ONE pair of backing arrays.
func c15RunStore[K any, V any](ks []K, vs []V, encK func(int) K, decK func(K) int, encV func(int) V, decV func(V) int, calls [][]string) []string {
	dump := func() (string, string) {
		ok, ov := make([]int, len(ks)), make([]int, len(vs))
		for i := range ks {
			ok[i] = decK(ks[i])
		}
		for i := range vs {
			ov[i] = decV(vs[i])
		}
		return fmtInts(ok), fmtInts(ov)
	}
	var outs []string
	for _, c := range calls {
		outs = append(outs, func() (res string) {
			defer func() {
				if r := recover(); r != nil {
					a, b := dump()
					res = fmt.Sprintf("PANIC k=%s v=%s %s", a, b, strings.ReplaceAll(fmt.Sprint(r), "\n", " "))
				}
			}()
			mode, ko, nk, vo, nv, w := atoi(c[0]), atoi(c[1]), atoi(c[2]), atoi(c[3]), atoi(c[4]), atoi(c[5])
			if ko < 0 || nk < 0 || ko+nk > len(ks) || vo < 0 || nv < 0 || vo+nv > len(vs) {
				panic("HARNESS: c15Q slice bounds")
			}
			keys := ks[ko : ko+nk]
			vals := vs[vo : vo+nv]
			if w == 1 {
				if len(c) != 6+nk+nv {
					panic("HARNESS: c15Q data count")
				}
				for i := 0; i < nk; i++ {
					keys[i] = encK(atoi(c[6+i]))
				}
				for i := 0; i < nv; i++ {
					vals[i] = encV(atoi(c[6+nk+i]))
				}
			}
			count := 0
			sortx.SliceBy(keys, vals, func(i, j int) bool {
				count++
				c15Hook()
				return c15Less(mode, decK(keys[i]), decK(keys[j]))
			})
			a, b := dump()
			return fmt.Sprintf("k=%s v=%s c=%d", a, b, count)
		}())
	}
	return outs
}

type c15Adv struct {
	val    []int
	gas    int
	nsolid int
	cand   int
}

func (a *c15Adv) freeze(x int) { a.val[x] = a.nsolid; a.nsolid++ }

// McIlroy's adversary ("A killer adversary for quicksort", 1999), the same function as
// `killer` in ocaml/drv_c15.ml
func (a *c15Adv) less(x, y int) bool {
	if a.val[x] == a.gas && a.val[y] == a.gas {
		if x == a.cand {
			a.freeze(x)
		} else {
			a.freeze(y)
		}
	}
	if a.val[x] == a.gas {
		a.cand = x
	} else if a.val[y] == a.gas {
		a.cand = y
	}
	return a.val[x] < a.val[y]
}

func init() {
	// c15Q ktype cap k_0..k_(cap-1) v_0..v_(cap-1) | call | call ...
	//   call = mode ko nk vo nv w [d_1..d_nk e_1..e_nv]
	//   SliceBy(keysBacking[ko:ko+nk], valsBacking[vo:vo+nv], less_mode); w = 1: the two slices are
	//   overwritten with the data first (w = 0: they keep what the earlier calls left).
	//   -> per call: the two WHOLE backing arrays after the call and the number of less calls
	register("c15Q", func(toks []string) string {
		parts := splitBar(toks[1:])
		head := parts[0]
		ktype, cp := atoi(head[0]), atoi(head[1])
		if len(head) != 2+2*cp {
			panic("HARNESS: c15Q header")
		}
		k0, v0 := ints(head[2:2+cp]), ints(head[2+cp:])
		var outs []string
		switch ktype {
		case 1:
			ks, vs := make([]string, cp), make([]float64, cp)
			encK := func(x int) string { return strconv.Itoa(x) }
			encV := func(x int) float64 { return float64(x) }
			for i := range ks {
				ks[i], vs[i] = encK(k0[i]), encV(v0[i])
			}
			outs = c15RunStore(ks, vs, encK, func(s string) int { return atoi(s) }, encV, func(f float64) int { return int(f) }, parts[1:])
		case 2:
			ks, vs := make([]int64, cp), make([]c15Val, cp)
			encK := func(x int) int64 { return int64(x) }
			encV := func(x int) c15Val { return c15Val{"t" + strconv.Itoa(x), x} }
			for i := range ks {
				ks[i], vs[i] = encK(k0[i]), encV(v0[i])
			}
			outs = c15RunStore(ks, vs, encK, func(k int64) int { return int(k) }, encV, func(v c15Val) int {
				if v.tag != "t"+strconv.Itoa(v.v) {
					panic("TORN-VALUE")
				}
				return v.v
			}, parts[1:])
		default:
			id := func(x int) int { return x }
			outs = c15RunStore(append([]int(nil), k0...), append([]int(nil), v0...), id, id, id, id, parts[1:])
		}
		return strings.Join(outs, " | ")
	})
	// c15G procs | <c15S case without tag> | <c15S case without tag> ...
	//   every sub-case is sorted by its own goroutine on private slices, all goroutines released
	//   together, every less call yields (runtime.Gosched) so that the sorts interleave;
	//   procs > 0: GOMAXPROCS(procs) for the duration of the case (1 = all on one P)
	//   -> the c15S results, in order
	register("c15G", func(toks []string) string {
		parts := splitBar(toks[1:])
		procs := atoi(parts[0][0])
		if procs > 0 {
			defer runtime.GOMAXPROCS(runtime.GOMAXPROCS(procs))
		}
		subs := parts[1:]
		outs := make([]string, len(subs))
		var wg sync.WaitGroup
		start := make(chan struct{})
		c15HookOn.Store(true)
		defer c15HookOn.Store(false)
		for g := range subs {
			wg.Add(1)
			go func(g int) {
				defer wg.Done()
				<-start
				outs[g] = safe(handlers["c15S"], append([]string{"c15S"}, subs[g]...))
			}(g)
		}
		close(start)
		wg.Wait()
		return strings.Join(outs, " | ")
	})
	// c15A n k a b : the adaptive adversary with a solid prefix.  Items 0..n-1 (keys[i] = values[i] = i);
	//   the k items (a*i+b) mod n, i < k, are frozen ("solid") to the values 0..k-1 before the sort
	//   starts, every other item is gas.  less(i, j) = adversary(keys[i], keys[j]).
	//   -> k=[final keys] v=[final values] c=<less calls> f=[frozen value of item 0..n-1]
	register("c15A", func(toks []string) string {
		n, k, a, b := atoi(toks[1]), atoi(toks[2]), atoi(toks[3]), atoi(toks[4])
		adv := &c15Adv{val: make([]int, n), gas: n}
		for i := range adv.val {
			adv.val[i] = adv.gas
		}
		for i := 0; i < k; i++ {
			p := (a*i + b) % n
			if adv.val[p] == adv.gas {
				adv.freeze(p)
			}
		}
		keys, vals := make([]int, n), make([]int, n)
		for i := range keys {
			keys[i], vals[i] = i, i
		}
		count := 0
		sortx.SliceBy(keys, vals, func(i, j int) bool {
			count++
			return adv.less(keys[i], keys[j])
		})
		for i := range adv.val {
			if adv.val[i] == adv.gas {
				adv.freeze(i)
			}
		}
		return fmt.Sprintf("k=%s v=%s c=%d f=%s", fmtInts(keys), fmtInts(vals), count, fmtInts(adv.val))
	})
}
