package main

import (
	"bytes"
	"encoding/hex"
	"errors"
	"fmt"
	"io"
	"strings"

	"github.com/lixianmin/got/iox"
)

// C13: op sequences against the real iox.OctetsStream / iox.Buffer. After every op the
// returned values and the observers are printed; a panic ends the trace with PANIC.
// Token syntax: see ocaml/drv_c13.ml.

func c13Pat(i int) byte { return byte((i + (i>>8)*3 + 1) & 0xff) }

type c13Op struct {
	inner  *c13Op
	kind   byte
	data   []byte
	n      int
	whence int
	offset int64
}

func c13Parse(toks []string) []c13Op {
	written := 0
	ops := make([]c13Op, 0, len(toks))
	for _, t := range toks {
		op := c13Op{kind: t[0]}
		arg := t[1:]
		if t[0] == 'q' { // q<n>/<tok>: ReadOnce of n bytes whose reader first performs <tok> on the same buffer
			k := strings.IndexByte(arg, '/')
			in := c13Parse([]string{arg[k+1:]})[0]
			if in.kind == 'w' || in.kind == 'o' {
				// the inner payload continues the global pattern
				for i := range in.data {
					in.data[i] = c13Pat(written + i)
				}
				written += len(in.data)
			}
			op.inner = &in
			arg = arg[:k]
		}
		switch t[0] {
		case 'w', 'o', 'q':
			n := atoi(arg)
			op.data = make([]byte, n)
			for i := range op.data {
				op.data[i] = c13Pat(written + i)
			}
			written += n
		case 'x':
			d, err := hex.DecodeString(arg)
			if err != nil {
				panic("bad hex")
			}
			op.kind = 'w'
			op.data = d
			written += len(d)
		case 'r', 'n', 'g':
			op.n = atoi(arg)
		case 's':
			parts := strings.Split(arg, ":")
			op.whence = atoi(parts[0])
			op.offset = int64(atoi(parts[1]))
		case 't', 'z':
		default:
			panic("bad op " + t)
		}
		ops = append(ops, op)
	}
	return ops
}

type c13FailReader struct{}

func (c13FailReader) Read([]byte) (int, error) { return 0, errors.New("reader failed") }

// c13ChunkReader delivers its data in one Read (ReadOnce reads once).
type c13ChunkReader struct{ data []byte }

func (r *c13ChunkReader) Read(p []byte) (int, error) { return copy(p, r.data), nil }

// c13Try runs f; a panic is reported as ok=false.
func c13Try(f func() string) (s string, ok bool) {
	defer func() {
		if r := recover(); r != nil {
			s, ok = "PANIC", false
		}
	}()
	return f(), true
}

func c13Stream(toks []string) string {
	ops := c13Parse(toks[1:])
	var s iox.OctetsStream
	var out []string
	for _, op := range ops {
		op := op
		ret, ok := c13Try(func() string {
			switch op.kind {
			case 'w':
				// the caller owns its slice: hand over a scratch copy and scribble over it after the
				// call (io.Writer: "Write must not retain p"), so a stream that keeps a reference
				// to the caller's buffer shows up as changed unread bytes
				scratch := append([]byte(nil), op.data...)
				err := s.Write(scratch)
				for i := range scratch {
					scratch[i] = 0xEE
				}
				if err != nil {
					return "W!" + err.Error()
				}
				return "W"
			case 'r':
				p := make([]byte, op.n)
				for i := range p {
					p[i] = 0xEE
				}
				n, err := s.Read(p)
				e := ""
				if err != nil {
					if !errors.Is(err, iox.ErrInvalidArgument) {
						return "R!" + err.Error()
					}
					e = ":E"
				}
				return fmt.Sprintf("R%d:%s%s", n, hex.EncodeToString(p[:n]), e)
			case 's':
				pos, err := s.Seek(op.offset, op.whence)
				if err != nil {
					if pos != 0 || !errors.Is(err, iox.ErrInvalidArgument) {
						return fmt.Sprintf("S!%d,%v", pos, err)
					}
					return "SE"
				}
				return fmt.Sprintf("S%d", pos)
			case 't':
				s.Tidy()
				return "U"
			case 'z':
				s.Reset()
				return "U"
			}
			panic("op not available on OctetsStream")
		})
		if !ok {
			out = append(out, "PANIC")
			break
		}
		b, bok := c13Try(func() string { return hex.EncodeToString(s.Bytes()) })
		out = append(out, fmt.Sprintf("%s b=%s l=%d p=%d", ret, b, s.Len(), s.Position()))
		if !bok {
			break
		}
	}
	return strings.Join(out, " ; ")
}

// c13BufOp executes one op on b and renders its return value.
func c13BufOp(b *iox.Buffer, op c13Op, inner *[]string) string {
	switch op.kind {
	case 'w':
		scratch := append([]byte(nil), op.data...)
		n, err := b.Write(scratch)
		for i := range scratch {
			scratch[i] = 0xEE
		}
		if err != nil {
			return fmt.Sprintf("W%d!%v", n, err)
		}
		return fmt.Sprintf("W%d", n)
	case 'o', 'q':
		// Buffer.ReadOnce: the second way into Write. First a reader that fails (nothing may
		// change, (0, err) expected), then a reader that delivers exactly the payload into a
		// larger scratch buffer, which is scribbled over afterwards. 'q': the reader first calls
		// back into the SAME buffer (op.inner; its observation is a trace line of its own).
		before := append([]byte(nil), b.Bytes()...)
		if n, err := b.ReadOnce(c13FailReader{}, make([]byte, len(op.data)+3)); n != 0 || err == nil || !bytes.Equal(before, b.Bytes()) {
			return fmt.Sprintf("READONCE-ERROR-PATH n=%d err=%v", n, err)
		}
		scratch := make([]byte, len(op.data)+3)
		var rd io.Reader = &c13ChunkReader{data: op.data}
		if op.kind == 'q' {
			rd = &c13ReentrantReader{b: b, inner: *op.inner, data: op.data, lines: inner}
		}
		n, err := b.ReadOnce(rd, scratch)
		for i := range scratch {
			scratch[i] = 0xEE
		}
		if err != nil {
			return fmt.Sprintf("W%d!%v", n, err)
		}
		return fmt.Sprintf("W%d", n)
	case 'r':
		p := make([]byte, op.n)
		for i := range p {
			p[i] = 0xEE
		}
		n, err := b.Read(p)
		e := ""
		if err != nil {
			if err != io.EOF {
				return "R!" + err.Error()
			}
			e = ":EOF"
		}
		return fmt.Sprintf("R%d:%s%s", n, hex.EncodeToString(p[:n]), e)
	case 'n':
		return "N" + hex.EncodeToString(b.Next(op.n))
	case 's':
		pos, err := b.Seek(op.offset, op.whence)
		if err != nil {
			if pos != 0 {
				return fmt.Sprintf("S!%d,%v", pos, err)
			}
			return "SE"
		}
		return fmt.Sprintf("S%d", pos)
	case 't':
		b.Tidy()
		return "U"
	case 'z':
		b.Reset()
		return "U"
	case 'g':
		b.Grow(op.n)
		return "U"
	}
	panic("unknown op")
}

// c13BufObs renders the observers after an op.
func c13BufObs(b *iox.Buffer, ret string) (string, bool) {
	by, bok := c13Try(func() string {
		x := b.Bytes()
		if s := b.String(); s != string(x) {
			return "STRING-DIFFERS-FROM-BYTES"
		}
		return hex.EncodeToString(x)
	})
	pos := "E"
	if p, err := b.Seek(0, io.SeekCurrent); err == nil {
		pos = fmt.Sprint(p)
	}
	return fmt.Sprintf("%s b=%s l=%d c=%d p=%s", ret, by, b.Len(), b.Cap(), pos), bok
}

// c13ReentrantReader performs one op on the buffer it is being read into, then delivers its data.
type c13ReentrantReader struct {
	b     *iox.Buffer
	inner c13Op
	data  []byte
	lines *[]string
}

func (r *c13ReentrantReader) Read(p []byte) (int, error) {
	ret := c13BufOp(r.b, r.inner, nil)
	line, _ := c13BufObs(r.b, ret)
	*r.lines = append(*r.lines, line)
	return copy(p, r.data), nil
}

func c13Buffer(toks []string) string {
	ops := c13Parse(toks[1:])
	var b iox.Buffer
	var out []string
	for _, op := range ops {
		op := op
		var inner []string
		ret, ok := c13Try(func() string { return c13BufOp(&b, op, &inner) })
		out = append(out, inner...)
		if !ok {
			out = append(out, "PANIC")
			break
		}
		line, bok := c13BufObs(&b, ret)
		out = append(out, line)
		if !bok {
			break
		}
	}
	return strings.Join(out, " ; ")
}

func init() {
	register("c13B", c13Buffer)
	register("c13S", c13Stream)
	register("c13So", c13Stream)
}
