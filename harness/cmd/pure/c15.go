package main

import (
	"fmt"
	"strconv"
	"strings"

	"github.com/lixianmin/got/sortx"
)

// c15Less is the user's comparison on key values, selected by mode; the same functions
// are written in coq/models/Sort.v (srt_less_mode).
func c15Less(mode int, x, y int) bool {
	fdiv := func(a, b int) int { // floor division
		q := a / b
		if (a%b != 0) && ((a < 0) != (b < 0)) {
			q--
		}
		return q
	}
	switch mode {
	case 0:
		return x < y
	case 1:
		return y < x
	case 2:
		return fdiv(x, 4) < fdiv(y, 4)
	case 3:
		return ((x-y)%3+3)%3 == 1
	case 4:
		return true
	case 6:
		return c15Nested(0, x, y) // a less that itself calls SliceBy (2-element inner sort)
	case 7:
		return c15Nested(12, x, y) // the same with a 14-element inner sort (doPivot path)
	default:
		return x <= y
	}
}

type c15Val struct {
	tag string
	v   int
}

func init() {
	// c15S mode ktype nk nv k_1..k_nk v_1..v_nv
	//   ktype 0: keys []int,    values []int
	//   ktype 1: keys []string, values []float64
	//   ktype 2: keys []int64,  values []c15Val (a struct)
	register("c15S", func(toks []string) string {
		mode, ktype, nk, nv := atoi(toks[1]), atoi(toks[2]), atoi(toks[3]), atoi(toks[4])
		ks := ints(toks[5 : 5+nk])
		vs := ints(toks[5+nk : 5+nk+nv])
		count := 0
		var outK, outV []int
		switch ktype {
		case 1:
			keys := make([]string, nk)
			for i, k := range ks {
				keys[i] = strconv.Itoa(k)
			}
			vals := make([]float64, nv)
			for i, v := range vs {
				vals[i] = float64(v)
			}
			sortx.SliceBy(keys, vals, func(i, j int) bool {
				count++
				c15Hook()
				return c15Less(mode, atoi(keys[i]), atoi(keys[j]))
			})
			for _, k := range keys {
				outK = append(outK, atoi(k))
			}
			for _, v := range vals {
				outV = append(outV, int(v))
			}
		case 2:
			keys := make([]int64, nk)
			for i, k := range ks {
				keys[i] = int64(k)
			}
			vals := make([]c15Val, nv)
			for i, v := range vs {
				vals[i] = c15Val{"t" + strconv.Itoa(v), v}
			}
			sortx.SliceBy(keys, vals, func(i, j int) bool {
				count++
				c15Hook()
				return c15Less(mode, int(keys[i]), int(keys[j]))
			})
			for _, k := range keys {
				outK = append(outK, int(k))
			}
			for _, v := range vals {
				if v.tag != "t"+strconv.Itoa(v.v) {
					return "TORN-VALUE"
				}
				outV = append(outV, v.v)
			}
		default:
			keys := append([]int(nil), ks...)
			vals := append([]int(nil), vs...)
			sortx.SliceBy(keys, vals, func(i, j int) bool {
				count++
				c15Hook()
				return c15Less(mode, keys[i], keys[j])
			})
			outK, outV = keys, vals
		}
		return fmt.Sprintf("k=%s v=%s c=%d", fmtInts(outK), fmtInts(outV), count)
	})
	// c15V ktype M K_1..K_n : keys k_i = K_i / M, values v_i = K_i % M (0 <= v_i < M); the less callback READS BOTH
	// slices: (keys[i], values[i]) < (keys[j], values[j]) lexicographically (ties between equal keys broken by the
	// value), so SliceBy must keep the values next to their keys WHILE it sorts. Output: the pairs re-composed.
	register("c15V", func(toks []string) string {
		ktype, m := atoi(toks[1]), atoi(toks[2])
		ks := ints(toks[3:])
		count := 0
		n := len(ks)
		outK := make([]int, n)
		outV := make([]int, n)
		if ktype == 1 {
			keys := make([]string, n)
			vals := make([]float64, n)
			for i, k := range ks {
				keys[i], vals[i] = strconv.Itoa(k/m), float64(k%m)
			}
			sortx.SliceBy(keys, vals, func(i, j int) bool {
				count++
				a, b := atoi(keys[i]), atoi(keys[j])
				return a < b || (a == b && vals[i] < vals[j])
			})
			for i := range keys {
				outK[i], outV[i] = atoi(keys[i])*m+int(vals[i]), int(vals[i])
			}
		} else {
			keys := make([]int, n)
			vals := make([]int, n)
			for i, k := range ks {
				keys[i], vals[i] = k/m, k%m
			}
			sortx.SliceBy(keys, vals, func(i, j int) bool {
				count++
				return keys[i] < keys[j] || (keys[i] == keys[j] && vals[i] < vals[j])
			})
			for i := range keys {
				outK[i], outV[i] = keys[i]*m+vals[i], vals[i]
			}
		}
		return fmt.Sprintf("k=%s v=%s c=%d", fmtInts(outK), fmtInts(outV), count)
	})
	// c15U x_1..x_n : UniqueInt ; result slice and the backing array after the call
	register("c15U", func(toks []string) string {
		a := ints(toks[1:])
		r := sortx.UniqueInt(a)
		alias := len(r) == 0 || len(a) == 0 || &r[0] == &a[0]
		if !alias {
			return "NOT-INPLACE"
		}
		return fmt.Sprintf("r=%s a=%s", fmtInts(r), fmtInts(a))
	})
	// c15W x_1..x_n : UniqueString on the strings "s<x_i>"
	register("c15W", func(toks []string) string {
		xs := ints(toks[1:])
		a := make([]string, len(xs))
		for i, x := range xs {
			a[i] = "s" + strconv.Itoa(x)
		}
		r := sortx.UniqueString(a)
		alias := len(r) == 0 || len(a) == 0 || &r[0] == &a[0]
		if !alias {
			return "NOT-INPLACE"
		}
		dec := func(l []string) []int {
			o := make([]int, len(l))
			for i, s := range l {
				o[i] = atoi(strings.TrimPrefix(s, "s"))
			}
			return o
		}
		return fmt.Sprintf("r=%s a=%s", fmtInts(dec(r)), fmtInts(dec(a)))
	})
}
