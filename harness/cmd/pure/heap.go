package main

// Differential test of coq/lib/Heap.v against the real std.PriorityQueue
// (std/priority_queue.go over container/heap) and against container/heap.Init.
//
//   heap <op> <op> ...      ops: P:<prio>:<id>  Push      O  Pop      T  Top
//                                F:<i>:<prio>:<id>  Fix(x, i)         R:<i>  Remove(i)
//     answer: one "<array>><value>" per op, joined by ';' ; array = [prio.id,...] is the
//     backing slice of the queue after the op, value = returned item, "nil" or "-".
//     A panicking op answers "PANIC" and ends the sequence.
//   heapraw <op> ...        the same ops and answers, executed directly with container/heap
//                           on a plain slice type of the harness (Top = h[0] or nil)
//   heapinit <prio>:<id> ...   answer: the slice after heap.Init
//
// The backing slice of std.PriorityQueue is unexported (field s *sorter, sorter =
// []Comparable); it is read through reflect + unsafe (read-only).

import (
	"container/heap"
	"fmt"
	"reflect"
	"strings"

	"github.com/lixianmin/got/std"
)

type hitem struct{ p, id int }

func (a *hitem) Less(other any) bool { return a.p < other.(*hitem).p }

func (a *hitem) String() string { return fmt.Sprintf("%d.%d", a.p, a.id) }

func pqSlice(pq *std.PriorityQueue) []std.Comparable {
	f := reflect.ValueOf(pq).Elem().FieldByName("s")
	if !f.IsValid() || f.Kind() != reflect.Ptr || f.Elem().Kind() != reflect.Slice {
		panic("HARNESS: std.PriorityQueue has no field s *[]Comparable any more")
	}
	return *(*[]std.Comparable)(f.UnsafePointer())
}

func fmtPQ(pq *std.PriorityQueue) string {
	var sb strings.Builder
	sb.WriteByte('[')
	for i, c := range pqSlice(pq) {
		if i > 0 {
			sb.WriteByte(',')
		}
		sb.WriteString(c.(*hitem).String())
	}
	sb.WriteByte(']')
	return sb.String()
}

func fmtComparable(c std.Comparable) string {
	if c == nil {
		return "nil"
	}
	return c.(*hitem).String()
}

// one op; a panic is turned into ok=false
func heapOp(pq *std.PriorityQueue, op string) (val string, ok bool) {
	defer func() {
		if r := recover(); r != nil {
			if s, isStr := r.(string); isStr && strings.HasPrefix(s, "HARNESS") {
				panic(r)
			}
			val, ok = "PANIC", false
		}
	}()
	f := strings.Split(op, ":")
	switch f[0] {
	case "P":
		pq.Push(&hitem{atoi(f[1]), atoi(f[2])})
		return "-", true
	case "O":
		return fmtComparable(pq.Pop()), true
	case "T":
		return fmtComparable(pq.Top()), true
	case "F":
		pq.Fix(&hitem{atoi(f[2]), atoi(f[3])}, atoi(f[1]))
		return "-", true
	case "R":
		return fmtComparable(pq.Remove(atoi(f[1]))), true
	}
	panic("HARNESS: bad heap op " + op)
}

// plain container/heap user for heap.Init
type initHeap []*hitem

func (h initHeap) Len() int           { return len(h) }
func (h initHeap) Less(i, j int) bool { return h[i].p < h[j].p }
func (h initHeap) Swap(i, j int)      { h[i], h[j] = h[j], h[i] }
func (h *initHeap) Push(x any)        { *h = append(*h, x.(*hitem)) }
func (h *initHeap) Pop() any {
	old := *h
	n := len(old)
	x := old[n-1]
	*h = old[:n-1]
	return x
}

func fmtInitHeap(h initHeap) string {
	var sb strings.Builder
	sb.WriteByte('[')
	for i, c := range h {
		if i > 0 {
			sb.WriteByte(',')
		}
		sb.WriteString(c.String())
	}
	sb.WriteByte(']')
	return sb.String()
}

func rawOp(h *initHeap, op string) (val string, ok bool) {
	defer func() {
		if r := recover(); r != nil {
			if s, isStr := r.(string); isStr && strings.HasPrefix(s, "HARNESS") {
				panic(r)
			}
			val, ok = "PANIC", false
		}
	}()
	f := strings.Split(op, ":")
	switch f[0] {
	case "P":
		heap.Push(h, &hitem{atoi(f[1]), atoi(f[2])})
		return "-", true
	case "O":
		return heap.Pop(h).(*hitem).String(), true
	case "T":
		if len(*h) > 0 {
			return (*h)[0].String(), true
		}
		return "nil", true
	case "F":
		(*h)[atoi(f[1])] = &hitem{atoi(f[2]), atoi(f[3])}
		heap.Fix(h, atoi(f[1]))
		return "-", true
	case "R":
		return heap.Remove(h, atoi(f[1])).(*hitem).String(), true
	}
	panic("HARNESS: bad heap op " + op)
}

func init() {
	register("heapraw", func(toks []string) string {
		h := initHeap{}
		var out []string
		for _, op := range toks[1:] {
			v, ok := rawOp(&h, op)
			if !ok {
				out = append(out, "PANIC")
				break
			}
			out = append(out, fmtInitHeap(h)+">"+v)
		}
		return strings.Join(out, ";")
	})
	register("heap", func(toks []string) string {
		pq := std.NewPriorityQueue(4)
		var out []string
		for _, op := range toks[1:] {
			v, ok := heapOp(pq, op)
			if !ok {
				out = append(out, "PANIC")
				break
			}
			if pq.Len() != len(pqSlice(pq)) {
				panic("HARNESS: Len() differs from the slice length")
			}
			out = append(out, fmtPQ(pq)+">"+v)
		}
		return strings.Join(out, ";")
	})
	register("heapinit", func(toks []string) string {
		h := initHeap{}
		for _, t := range toks[1:] {
			f := strings.Split(t, ":")
			h = append(h, &hitem{atoi(f[0]), atoi(f[1])})
		}
		heap.Init(&h)
		return fmtInitHeap(h)
	})
}
