package main

// C12 "reads after stream operations": ONE real iox.OctetsStream is first driven through
// C13's vocabulary (Write / Read / Seek / Tidy / Reset; token syntax of c13.go) and then
// through C12's typed read calls (token syntax of c12.go), the typed reads through the
// stream's own methods or an OctetsReader on it.
//
//   c12s <stream op> ... | <read op> ... | <stream op> ... | <read op> ... (any number of segments)
//
// Output: one part per segment, joined by " || ": "<c13S trace>" for stream ops,
// "R=<c12 results> B=<Bytes() after the segment>" for read calls. The trace is the one of
// c13Stream (returned value, Bytes(), Len(), Position() after every op) except that a
// panicking Bytes() does not end the run -- the reads are still made, so a read that panics
// on a cursor left outside the data by a stream op is observed. A panicking stream op ends
// the case (its part ends with PANIC and is the last one).

import (
	"encoding/hex"
	"errors"
	"fmt"
	"runtime"
	"runtime/debug"
	"strings"

	"github.com/lixianmin/got/iox"
)

// c12sStreamOp performs one stream op (same calls and same formatting as c13Stream).
func c12sStreamOp(s *iox.OctetsStream, op c13Op) string {
	switch op.kind {
	case 'w':
		scratch := append([]byte(nil), op.data...)
		err := s.Write(scratch)
		for i := range scratch {
			scratch[i] = 0xEE
		}
		if err != nil {
			return "W!" + err.Error()
		}
		return "W"
	case 'r':
		p := make([]byte, op.n)
		for i := range p {
			p[i] = 0xEE
		}
		n, err := s.Read(p)
		e := ""
		if err != nil {
			if !errors.Is(err, iox.ErrInvalidArgument) {
				return "R!" + err.Error()
			}
			e = ":E"
		}
		return fmt.Sprintf("R%d:%s%s", n, hex.EncodeToString(p[:n]), e)
	case 's':
		pos, err := s.Seek(op.offset, op.whence)
		if err != nil {
			if pos != 0 || !errors.Is(err, iox.ErrInvalidArgument) {
				return fmt.Sprintf("S!%d,%v", pos, err)
			}
			return "SE"
		}
		return fmt.Sprintf("S%d", pos)
	case 't':
		s.Tidy()
		return "U"
	case 'z':
		s.Reset()
		return "U"
	}
	panic("op not available on OctetsStream")
}

func init() {
	register("c12s", octKeptWrap(func(toks []string) string {
		// segments separated by "|": even = stream ops, odd = typed read calls
		var segs = [][]string{nil}
		for _, t := range toks[1:] {
			if t == "|" {
				segs = append(segs, nil)
			} else {
				segs[len(segs)-1] = append(segs[len(segs)-1], t)
			}
		}
		// all stream-op tokens are parsed in one go: the pattern bytes of w<n> continue across segments
		var allOps []string
		for k := 0; k < len(segs); k += 2 {
			allOps = append(allOps, segs[k]...)
		}
		var ops = c13Parse(allOps)
		var stream = &iox.OctetsStream{}
		var reader = iox.NewOctetsReader(stream)
		var mt = &octMeter{on: true}
		var oldGC = debug.SetGCPercent(-1)
		defer debug.SetGCPercent(oldGC)
		c12Cases++
		if c12Cases%4096 == 0 {
			runtime.GC()
		}
		var parts []string
		for k, seg := range segs {
			if k%2 == 0 {
				var out []string
				for range seg {
					op := ops[0]
					ops = ops[1:]
					ret, ok := c13Try(func() string { return c12sStreamOp(stream, op) })
					if !ok {
						out = append(out, "PANIC")
						parts = append(parts, strings.Join(out, " ; "))
						return strings.Join(parts, " || ")
					}
					b, _ := c13Try(func() string { return hex.EncodeToString(stream.Bytes()) })
					out = append(out, fmt.Sprintf("%s b=%s l=%d p=%d", ret, b, stream.Len(), stream.Position()))
				}
				parts = append(parts, strings.Join(out, " ; "))
				continue
			}
			var rs []string
			for _, op := range seg {
				var viaStream = op[0] == 's'
				var typ = op[len(op)-1]
				var n = 0
				if op[0] == 'n' {
					typ = 'n'
					n = atoi(op[1:])
				}
				var inside = stream.Position() >= 0 && stream.Position() <= stream.Len()
				if (typ == 'B' || typ == 'S') && hugeAllocs >= octHugeMax && inside && hostilePrefix(stream) {
					rs = append(rs, fmt.Sprintf("GUARD@%d/%d+0", stream.Position(), stream.Len()))
					continue
				}
				mt.done = false
				var r = octCall(func() string { return octRead(stream, reader, viaStream, typ, n, mt) })
				var d = mt.delta()
				if d > octHuge {
					hugeAllocs++
					runtime.GC()
					debug.FreeOSMemory()
				}
				rs = append(rs, fmt.Sprintf("%s@%d/%d+%d", r, stream.Position(), stream.Len(), d))
			}
			b, _ := c13Try(func() string { return hex.EncodeToString(stream.Bytes()) })
			parts = append(parts, "R="+strings.Join(rs, ";")+" B="+b)
		}
		return strings.Join(parts, " || ")
	}))
}
