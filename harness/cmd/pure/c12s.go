package main

// C12 "reads after stream operations": ONE real iox.OctetsStream is first driven through
// C13's vocabulary (Write / Read / Seek / Tidy / Reset; token syntax of c13.go) and then
// through C12's typed read calls (token syntax of c12.go), the typed reads through the
// stream's own methods or an OctetsReader on it.
//
//   c12s <stream op> ... | <read op> ...
//
// Output: "<c13S trace> || R=<c12 results>". The trace is the one of c13Stream (returned
// value, Bytes(), Len(), Position() after every op) except that a panicking Bytes() does
// not end the run -- the reads are still made, so a read that panics on a cursor left
// outside the data by a stream op is observed. A panicking stream op ends the case
// ("... ; PANIC || NOTRUN").

import (
	"encoding/hex"
	"errors"
	"fmt"
	"runtime"
	"runtime/debug"
	"strings"

	"github.com/lixianmin/got/iox"
)

// c12sStreamOp performs one stream op (same calls and same formatting as c13Stream).
func c12sStreamOp(s *iox.OctetsStream, op c13Op) string {
	switch op.kind {
	case 'w':
		scratch := append([]byte(nil), op.data...)
		err := s.Write(scratch)
		for i := range scratch {
			scratch[i] = 0xEE
		}
		if err != nil {
			return "W!" + err.Error()
		}
		return "W"
	case 'r':
		p := make([]byte, op.n)
		for i := range p {
			p[i] = 0xEE
		}
		n, err := s.Read(p)
		e := ""
		if err != nil {
			if !errors.Is(err, iox.ErrInvalidArgument) {
				return "R!" + err.Error()
			}
			e = ":E"
		}
		return fmt.Sprintf("R%d:%s%s", n, hex.EncodeToString(p[:n]), e)
	case 's':
		pos, err := s.Seek(op.offset, op.whence)
		if err != nil {
			if pos != 0 || !errors.Is(err, iox.ErrInvalidArgument) {
				return fmt.Sprintf("S!%d,%v", pos, err)
			}
			return "SE"
		}
		return fmt.Sprintf("S%d", pos)
	case 't':
		s.Tidy()
		return "U"
	case 'z':
		s.Reset()
		return "U"
	}
	panic("op not available on OctetsStream")
}

func init() {
	register("c12s", octKeptWrap(func(toks []string) string {
		var sep = len(toks)
		for i, t := range toks {
			if t == "|" {
				sep = i
				break
			}
		}
		var ops = c13Parse(toks[1:sep])
		var rops []string
		if sep < len(toks) {
			rops = toks[sep+1:]
		}
		var stream = &iox.OctetsStream{}
		var out []string
		for _, op := range ops {
			op := op
			ret, ok := c13Try(func() string { return c12sStreamOp(stream, op) })
			if !ok {
				out = append(out, "PANIC")
				return strings.Join(out, " ; ") + " || NOTRUN"
			}
			b, _ := c13Try(func() string { return hex.EncodeToString(stream.Bytes()) })
			out = append(out, fmt.Sprintf("%s b=%s l=%d p=%d", ret, b, stream.Len(), stream.Position()))
		}

		var reader = iox.NewOctetsReader(stream)
		var mt = &octMeter{on: true}
		var oldGC = debug.SetGCPercent(-1)
		defer debug.SetGCPercent(oldGC)
		c12Cases++
		if c12Cases%4096 == 0 {
			runtime.GC()
		}
		var rs []string
		for _, op := range rops {
			var viaStream = op[0] == 's'
			var typ = op[len(op)-1]
			var n = 0
			if op[0] == 'n' {
				typ = 'n'
				n = atoi(op[1:])
			}
			var inside = stream.Position() >= 0 && stream.Position() <= stream.Len()
			if (typ == 'B' || typ == 'S') && hugeAllocs >= octHugeMax && inside && hostilePrefix(stream) {
				rs = append(rs, fmt.Sprintf("GUARD@%d/%d+0", stream.Position(), stream.Len()))
				continue
			}
			mt.done = false
			var r = octCall(func() string { return octRead(stream, reader, viaStream, typ, n, mt) })
			var d = mt.delta()
			if d > octHuge {
				hugeAllocs++
				runtime.GC()
				debug.FreeOSMemory()
			}
			rs = append(rs, fmt.Sprintf("%s@%d/%d+%d", r, stream.Position(), stream.Len(), d))
		}
		return strings.Join(out, " ; ") + " || R=" + strings.Join(rs, ";")
	}))
}
