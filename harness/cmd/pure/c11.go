package main

// C11 (and helpers shared with C12): implementation side of the iox octets codec cases.
// Every handler calls the real OctetsStream / OctetsWriter / OctetsReader API.

import (
	"bytes"
	"encoding/binary"
	"encoding/hex"
	"fmt"
	"runtime"
	"strconv"
	"strings"
	"sync"

	"github.com/lixianmin/got/iox"
)

func octErrName(err error) string {
	switch err {
	case iox.ErrInvalidArgument:
		return "E:InvalidArgument"
	case iox.ErrBad7BitInt:
		return "E:Bad7BitInt"
	case iox.ErrNegativeSize:
		return "E:NegativeSize"
	case iox.ErrNotEnoughData:
		return "E:NotEnoughData"
	}
	return "E:?" + strings.ReplaceAll(err.Error(), " ", "_")
}

func unhex(s string) []byte {
	if s == "-" || s == "" {
		return nil
	}
	b, err := hex.DecodeString(s)
	if err != nil {
		panic("bad hex " + s)
	}
	return b
}

func hexOrDash(b []byte) string {
	if len(b) == 0 {
		return "-"
	}
	return hex.EncodeToString(b)
}

// octCall runs one API call, turning a panic into the observable "PANIC".
func octCall(f func() string) (res string) {
	defer func() {
		if r := recover(); r != nil {
			res = "PANIC"
		}
	}()
	return f()
}

type octTok struct {
	viaStream bool
	typ       byte
	val       string
}

func parseOctTok(t string) octTok {
	if len(t) < 3 || t[2] != ':' {
		panic("bad token " + t)
	}
	return octTok{viaStream: t[0] == 's', typ: t[1], val: t[3:]}
}

// independent reference encoder: encoding/binary (little endian, uvarint = unsigned LEB128)
func refEncode(buf []byte, k octTok) []byte {
	switch k.typ {
	case 'b':
		if k.val == "1" {
			return append(buf, 1)
		}
		return append(buf, 0)
	case 'y':
		return append(buf, byte(atoi(k.val)))
	case 'h':
		return binary.LittleEndian.AppendUint16(buf, uint16(int16(atoi(k.val))))
	case 'i':
		return binary.LittleEndian.AppendUint32(buf, uint32(int32(atoi(k.val))))
	case 'l':
		return binary.LittleEndian.AppendUint64(buf, uint64(int64(atoi(k.val))))
	case 'v':
		return binary.AppendUvarint(buf, uint64(uint32(int32(atoi(k.val)))))
	case 'B', 'S':
		d := unhex(k.val)
		buf = binary.AppendUvarint(buf, uint64(len(d)))
		return append(buf, d...)
	}
	panic("bad type")
}

// octWrite performs the write call of one typed value.
func octWrite(stream *iox.OctetsStream, writer *iox.OctetsWriter, k octTok) error {
	switch k.typ {
	case 'b':
		if k.viaStream {
			return stream.WriteBool(k.val == "1")
		}
		return writer.WriteBool(k.val == "1")
	case 'y':
		if k.viaStream {
			return stream.WriteByte(byte(atoi(k.val)))
		}
		return writer.WriteByte(byte(atoi(k.val)))
	case 'h':
		if k.viaStream {
			return stream.WriteInt16(int16(atoi(k.val)))
		}
		return writer.WriteInt16(int16(atoi(k.val)))
	case 'i':
		if k.viaStream {
			return stream.WriteInt32(int32(atoi(k.val)))
		}
		return writer.WriteInt32(int32(atoi(k.val)))
	case 'l':
		if k.viaStream {
			return stream.WriteInt64(int64(atoi(k.val)))
		}
		return writer.WriteInt64(int64(atoi(k.val)))
	case 'v':
		return writer.Write7BitEncodedInt(int32(atoi(k.val)))
	case 'B':
		scratch := unhex(k.val) // scribbled after the call: the stream must not keep the caller's slice
		err := writer.WriteBytes(scratch)
		for i := range scratch {
			scratch[i] = 0xEE
		}
		return err
	case 'S':
		return writer.WriteString(string(unhex(k.val)))
	}
	panic("bad type")
}

// octUnread is stream.Bytes(); ok = false if the call panicked (position beyond len).
func octUnread(stream *iox.OctetsStream) (b []byte, ok bool) {
	defer func() {
		if r := recover(); r != nil {
			b, ok = nil, false
		}
	}()
	return stream.Bytes(), true
}

// c11i <schedule over W R T> <api><type>:<value> ... : ONE stream used interleaved. W = write the
// next value, R = read the oldest value not yet read with the matching call, T = stream.Tidy().
// After every step Position()/Len() are recorded, and stream.Bytes() (the unread bytes) is
// compared with encoding/binary's encoding of the values written and not yet read.
func octInterleaved(toks []string) string {
	if len(toks) < 2 {
		return "BADCASE"
	}
	var stream = &iox.OctetsStream{}
	var writer = iox.NewOctetsWriter(stream)
	var reader = iox.NewOctetsReader(stream)
	var ks []octTok
	for _, t := range toks[2:] {
		ks = append(ks, parseOctTok(t))
	}
	var steps []string
	var werr, refs = "nil", "ok"
	var nextW, nextR = 0, 0
	var pendRef []byte // encoding/binary encoding of the values written and not yet read
	for n, c := range toks[1] {
		switch c {
		case 'W':
			if nextW >= len(ks) {
				return "BADCASE"
			}
			var k = ks[nextW]
			nextW++
			if err := octWrite(stream, writer, k); err != nil {
				werr = err.Error()
			}
			pendRef = refEncode(pendRef, k)
			steps = append(steps, fmt.Sprintf("w%d/%d", stream.Position(), stream.Len()))
		case 'R':
			if nextR >= nextW {
				return "BADCASE"
			}
			var k = ks[nextR]
			nextR++
			var p0 = stream.Position()
			var r = octCall(func() string { return octRead(stream, reader, k.viaStream, k.typ, 0, nil) })
			var sz = len(refEncode(nil, k))
			if sz <= len(pendRef) {
				pendRef = pendRef[sz:]
			} else {
				pendRef = nil
			}
			steps = append(steps, fmt.Sprintf("R%d~%s@%d/%d+0", p0, r, stream.Position(), stream.Len()))
		case 'T':
			stream.Tidy()
			steps = append(steps, fmt.Sprintf("t%d/%d", stream.Position(), stream.Len()))
		default:
			return "BADCASE"
		}
		if unread, ok := octUnread(stream); refs == "ok" && (!ok || !bytes.Equal(unread, pendRef)) {
			refs = fmt.Sprintf("step%d", n)
			if !ok {
				refs += "(Bytes()-panicked)"
			}
		}
	}
	var unread, _ = octUnread(stream)
	return fmt.Sprintf("S=%s P=%d/%d U=%s WERR=%s REF=%s", strings.Join(steps, ";"), stream.Position(), stream.Len(),
		hexOrDash(unread), werr, refs)
}

// c11R = the c11 case on a stream that is reused after Reset() (see the c11 handler)
var c11Reused bool

func init() {
	register("c11R", func(toks []string) string {
		c11Reused = true
		defer func() { c11Reused = false }()
		return handlers["c11"](append([]string{"c11"}, toks[1:]...))
	})
}

func init() {
	register("c11i", octKeptWrap(octInterleaved))

	// c11 <api><type>:<value> ... : write all values, then read them back with the matching calls
	register("c11", octKeptWrap(func(toks []string) string {
		var stream = &iox.OctetsStream{}
		if c11Reused {
			// the stream has a life before this case: it once carried a big message (> 64 KB), part of it was
			// read, then it was Reset() for reuse -- after which it must behave as a new stream
			big := make([]byte, 70000)
			for i := range big {
				big[i] = byte(i*7 + 3)
			}
			_ = stream.Write(big)
			_, _ = stream.Read(make([]byte, 4097))
			stream.Reset()
		}
		var writer = iox.NewOctetsWriter(stream)
		var reader = iox.NewOctetsReader(stream)
		var ks []octTok
		for _, t := range toks[1:] {
			ks = append(ks, parseOctTok(t))
		}
		var lens []string
		var ref []byte
		var werr = "nil"
		for _, k := range ks {
			var err error
			switch k.typ {
			case 'b':
				if k.viaStream {
					err = stream.WriteBool(k.val == "1")
				} else {
					err = writer.WriteBool(k.val == "1")
				}
			case 'y':
				if k.viaStream {
					err = stream.WriteByte(byte(atoi(k.val)))
				} else {
					err = writer.WriteByte(byte(atoi(k.val)))
				}
			case 'h':
				if k.viaStream {
					err = stream.WriteInt16(int16(atoi(k.val)))
				} else {
					err = writer.WriteInt16(int16(atoi(k.val)))
				}
			case 'i':
				if k.viaStream {
					err = stream.WriteInt32(int32(atoi(k.val)))
				} else {
					err = writer.WriteInt32(int32(atoi(k.val)))
				}
			case 'l':
				if k.viaStream {
					err = stream.WriteInt64(int64(atoi(k.val)))
				} else {
					err = writer.WriteInt64(int64(atoi(k.val)))
				}
			case 'v':
				err = writer.Write7BitEncodedInt(int32(atoi(k.val)))
			case 'B':
				scratch := unhex(k.val)
				err = writer.WriteBytes(scratch)
				for i := range scratch {
					scratch[i] = 0xEE
				}
			case 'S':
				err = writer.WriteString(string(unhex(k.val)))
			default:
				panic("bad type")
			}
			if err != nil {
				werr = err.Error()
			}
			lens = append(lens, strconv.Itoa(stream.Len()))
			ref = refEncode(ref, k)
		}
		if stream.Position() != 0 {
			werr = "position-moved-by-write"
		}
		var written = append([]byte(nil), stream.Bytes()...)
		var rs []string
		for _, k := range ks {
			var k = k
			var r = octCall(func() string { return octRead(stream, reader, k.viaStream, k.typ, 0, nil) })
			rs = append(rs, fmt.Sprintf("%s@%d/%d+0", r, stream.Position(), stream.Len()))
		}
		var refs = "ok"
		if !bytes.Equal(ref, written) {
			refs = hexOrDash(ref)
		}
		return fmt.Sprintf("W=%s L=%s R=%s WERR=%s REF=%s", hexOrDash(written), strings.Join(lens, ","), strings.Join(rs, ";"), werr, refs)
	}))

	// c11sweep <lo> <hi> <stride> : every int32 v = lo, lo+stride, ... < hi, in both encodings,
	// against encoding/binary and read back; implementation side only (no model), parallel.
	register("c11sweep", func(toks []string) string {
		lo, hi, stride := int64(atoi(toks[1])), int64(atoi(toks[2])), int64(atoi(toks[3]))
		var workers = runtime.NumCPU()
		var wg sync.WaitGroup
		var mu sync.Mutex
		var fail string
		var total int64
		var n = (hi - lo + stride - 1) / stride
		for w := 0; w < workers; w++ {
			wg.Add(1)
			go func(w int) {
				defer wg.Done()
				var stream = &iox.OctetsStream{}
				var writer = iox.NewOctetsWriter(stream)
				var reader = iox.NewOctetsReader(stream)
				var ref = make([]byte, 0, 16)
				var cnt int64
				var from, to = n * int64(w) / int64(workers), n * int64(w+1) / int64(workers)
				for i := from; i < to; i++ {
					var v = int32(lo + i*stride)
					stream.Reset()
					_ = writer.WriteInt32(v)
					_ = writer.Write7BitEncodedInt(v)
					ref = binary.LittleEndian.AppendUint32(ref[:0], uint32(v))
					ref = binary.AppendUvarint(ref, uint64(uint32(v)))
					var same = stream.Position() == 0 && bytes.Equal(stream.Bytes(), ref)
					var a, e1 = reader.ReadInt32()
					var b, e2 = reader.Read7BitEncodedInt()
					if !same || stream.Len() != len(ref) || e1 != nil || e2 != nil || a != v || b != v ||
						stream.Position() != stream.Len() {
						mu.Lock()
						if fail == "" {
							fail = fmt.Sprintf("v=%d ref=%x len=%d pos=%d int32=%d,%v 7bit=%d,%v", v, ref, stream.Len(), stream.Position(), a, e1, b, e2)
						}
						mu.Unlock()
						return
					}
					cnt++
				}
				mu.Lock()
				total += cnt
				mu.Unlock()
			}(w)
		}
		wg.Wait()
		if fail != "" {
			return "SWEEP fail " + fail
		}
		return fmt.Sprintf("SWEEP ok n=%d", total)
	})
}

// octMeter measures the bytes allocated (runtime.MemStats.TotalAlloc) by one API call.
type octMeter struct {
	on     bool
	m0, m1 runtime.MemStats
	done   bool
}

func (m *octMeter) begin() {
	if m != nil && m.on {
		m.done = false
		runtime.ReadMemStats(&m.m0)
	}
}
func (m *octMeter) end() {
	if m != nil && m.on {
		runtime.ReadMemStats(&m.m1)
		m.done = true
	}
}
func (m *octMeter) delta() uint64 {
	if m == nil || !m.on || !m.done {
		return 0
	}
	return m.m1.TotalAlloc - m.m0.TotalAlloc
}

// octRead performs one read call and formats the value / error identity.
// Results handed out by ReadBytes / ReadString are kept with a private copy of their content and
// compared again when the case is over: a value that was right when it was returned but changes
// under later stream operations (a slice or string aliasing the stream's or the reader's own
// buffer) is reported as "PANIC retained-result-changed ..." (the harness's only out-of-band
// channel: every monitor treats it as a failing input).
type octKept struct {
	b    []byte
	s    string
	copy []byte
}

var octKeptList []octKept

func octKeep(b []byte, s string) {
	if len(octKeptList) > 4096 {
		return
	}
	if b != nil {
		octKeptList = append(octKeptList, octKept{b: b, copy: append([]byte(nil), b...)})
	} else {
		octKeptList = append(octKeptList, octKept{s: s, copy: []byte(strings.Clone(s))})
	}
}

// octKeptVerdict wraps a handler: "" when every kept result still has its content.
func octKeptWrap(h func(toks []string) string) func(toks []string) string {
	return func(toks []string) string {
		octKeptList = octKeptList[:0]
		res := h(toks)
		for i, k := range octKeptList {
			cur := k.b
			if cur == nil {
				cur = []byte(k.s)
			}
			if !bytes.Equal(cur, k.copy) {
				return fmt.Sprintf("PANIC retained-result-changed: result #%d of ReadBytes/ReadString was %s when returned and is %s after later stream operations", i, hex.EncodeToString(k.copy), hex.EncodeToString(cur))
			}
		}
		return res
	}
}

func octRead(stream *iox.OctetsStream, reader *iox.OctetsReader, viaStream bool, typ byte, n int, mt *octMeter) string {
	switch typ {
	case 'b':
		var v bool
		var err error
		mt.begin()
		if viaStream {
			v, err = stream.ReadBool()
		} else {
			v, err = reader.ReadBool()
		}
		mt.end()
		if err != nil {
			return octErrName(err)
		}
		if v {
			return "b:1"
		}
		return "b:0"
	case 'y':
		var v byte
		var err error
		mt.begin()
		if viaStream {
			v, err = stream.ReadByte()
		} else {
			v, err = reader.ReadByte()
		}
		mt.end()
		if err != nil {
			return octErrName(err)
		}
		return "y:" + strconv.Itoa(int(v))
	case 'h':
		var v int16
		var err error
		mt.begin()
		if viaStream {
			v, err = stream.ReadInt16()
		} else {
			v, err = reader.ReadInt16()
		}
		mt.end()
		if err != nil {
			return octErrName(err)
		}
		return "h:" + strconv.Itoa(int(v))
	case 'i':
		var v int32
		var err error
		mt.begin()
		if viaStream {
			v, err = stream.ReadInt32()
		} else {
			v, err = reader.ReadInt32()
		}
		mt.end()
		if err != nil {
			return octErrName(err)
		}
		return "i:" + strconv.Itoa(int(v))
	case 'l':
		var v int64
		var err error
		mt.begin()
		if viaStream {
			v, err = stream.ReadInt64()
		} else {
			v, err = reader.ReadInt64()
		}
		mt.end()
		if err != nil {
			return octErrName(err)
		}
		return "l:" + strconv.FormatInt(v, 10)
	case 'v':
		mt.begin()
		var v, err = reader.Read7BitEncodedInt()
		mt.end()
		if err != nil {
			return octErrName(err)
		}
		return "v:" + strconv.Itoa(int(v))
	case 'B':
		mt.begin()
		var v, err = reader.ReadBytes()
		mt.end()
		if err != nil {
			return octErrName(err)
		}
		octKeep(v, "")
		return "B:" + hex.EncodeToString(v)
	case 'S':
		mt.begin()
		var v, err = reader.ReadString()
		mt.end()
		if err != nil {
			return octErrName(err)
		}
		octKeep(nil, v)
		return "S:" + hex.EncodeToString([]byte(v))
	case 'n':
		var buf = make([]byte, n)
		mt.begin()
		var k, err = stream.Read(buf)
		mt.end()
		if err != nil {
			return octErrName(err)
		}
		if k < 0 || k > n {
			return fmt.Sprintf("r:?count=%d", k)
		}
		return "r:" + hex.EncodeToString(buf[:k])
	}
	panic("bad read type")
}
