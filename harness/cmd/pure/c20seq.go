package main

// C20 -- call SEQUENCES of randx.WeightedSampling in one process and one goroutine.
//
//   c20Q <call> | <call> | ...
//   call = <seed> <k> <n> <pj> W <w...> R <rank...>
//
// Every call is made by the same goroutine, one after the other, each under its own
// recover(): a call may panic (invalid arguments; or the getWeight callback panics when it
// is asked for index pj, pj >= 0) and the NEXT call must behave exactly as if nothing had
// happened before it.  pj = -1: the callback never panics.  Before each call the global
// generator is seeded with that call's seed, so each call's reference keys are those of the
// single-call case "c20 seed k n W .. R .." (same two-pass protocol, ranks re-checked).
//
//   -> <res> | <res> | ...      res = r=[..] keys=.. calls=c     (returned normally)
//                                   | CLOBBERED returned=[..] now=[..]  (a later call modified the returned slice)
//                                   | PANIC calls=c keys=.. <msg> (panicked; c = number of getWeight calls made)

import (
	"fmt"
	"math/rand"
	"strings"

	"github.com/lixianmin/got/randx"
)

type c20CbPanic struct{ index int }

// c20Kept remembers the slices returned by the calls of the current sequence: a later call must
// not modify what an earlier call returned (re-checked at the end of the sequence).
type c20KeptResult struct {
	call  int
	slice []int
	shown string
}

var c20Kept []c20KeptResult

func c20OneCall(toks []string) (res string) {
	seed := int64(atoi(toks[0]))
	k, n, pj := atoi(toks[1]), atoi(toks[2]), atoi(toks[3])
	if toks[4] != "W" {
		panic("HARNESS: bad c20Q call")
	}
	rpos := -1
	for i := 5; i < len(toks); i++ {
		if toks[i] == "R" {
			rpos = i
			break
		}
	}
	if rpos < 0 {
		panic("HARNESS: bad c20Q call")
	}
	w := parseFloats(toks[5:rpos])
	ranks := ints(toks[rpos+1:])
	keys := refKeys(seed, w)
	if len(ranks) != len(keys) {
		return "RANK-MISMATCH count"
	}
	for i, r := range signedRanks(keys) {
		if r != ranks[i] {
			return "RANK-MISMATCH the ranks of the case are not those of the replayed keys"
		}
	}
	calls := 0
	defer func() {
		if r := recover(); r != nil {
			msg := strings.ReplaceAll(fmt.Sprint(r), "\n", " ")
			if cb, ok := r.(c20CbPanic); ok {
				msg = fmt.Sprintf("callback panicked at index %d", cb.index)
			}
			res = fmt.Sprintf("PANIC calls=%d keys=%s %s", calls, fmtKeys(keys), msg)
		}
	}()
	rand.Seed(seed)
	out := randx.WeightedSampling(k, n, func(i int) float64 {
		calls++
		if i == pj {
			panic(c20CbPanic{i})
		}
		if i < 0 || i >= len(w) {
			panic(fmt.Sprintf("HARNESS: getWeight(%d) outside [0,%d)", i, len(w)))
		}
		return w[i]
	})
	c20Kept = append(c20Kept, c20KeptResult{-1, out, fmtInts(out)})
	return fmt.Sprintf("r=%s keys=%s calls=%d", fmtInts(out), fmtKeys(keys), calls)
}

func init() {
	register("c20Q", func(toks []string) string {
		var outs []string
		start := 1
		c20Kept = nil
		for i := 1; i <= len(toks); i++ {
			if i == len(toks) || toks[i] == "|" {
				if i > start {
					before := len(c20Kept)
					outs = append(outs, c20OneCall(toks[start:i]))
					if len(c20Kept) > before {
						c20Kept[before].call = len(outs) - 1
					}
				}
				start = i + 1
			}
		}
		// the slice a call returned belongs to the caller: it must still read the same
		for _, kr := range c20Kept {
			if now := fmtInts(kr.slice); now != kr.shown {
				outs[kr.call] = fmt.Sprintf("CLOBBERED returned=%s now=%s (the slice returned by this call was modified by a later call)", kr.shown, now)
			}
		}
		c20Kept = nil
		return strings.Join(outs, " | ")
	})
}
