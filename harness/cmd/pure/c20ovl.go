package main

// C20 -- OVERLAPPING calls of randx.WeightedSampling.
//
//   c20keysN <seed> <n> <j> <n2> W <w...> W2 <w2...>
//        -> keys=<...> ikeys=<...>     reference keys of the outer and of the inner call (replay only)
//   c20N <seed> <k> <n> <j> <k2> <n2> W <w...> R <rank...> W2 <w2...> R2 <rank2...>
//        the outer call's getWeight, when asked for index j, first makes an INNER call
//        WeightedSampling(k2, n2, w2) and then returns w[j].  The global generator is seeded once;
//        the outer call draws u_0..u_j, the inner call its n2 draws, the outer call the rest
//        (the code draws u_i before it asks for weight i) -- replayed in exactly this order.
//        -> r=[..] ir=[..] keys=.. ikeys=.. calls=c icalls=c2
//   c20G <procs> <reps> | <k> <n> W <w...> | <k> <n> W <w...> ...
//        one goroutine per part, all released together, each making <reps> calls on its private
//        weights; every getWeight yields (runtime.Gosched) so that the calls interleave;
//        procs > 0: GOMAXPROCS(procs) for the duration of the case.  The goroutines share the global
//        generator, so the draws of one call are not reproducible: monitors only.
//        -> r=[..];r=[..];.. | r=[..];.. | ...      (PANIC <msg> for a call that panicked)

import (
	"fmt"
	"math"
	"math/rand"
	"runtime"
	"strings"
	"sync"

	"github.com/lixianmin/got/randx"
)

func c20Key(w, u float64) float64 {
	frac, exp := math.Frexp(w)
	return math.Log(frac) + float64(exp)*math.Ln2 - math.Log(-math.Log(u))
}

func refKeysNested(seed int64, w []float64, j int, w2 []float64) ([]float64, []float64) {
	rand.Seed(seed)
	keys := make([]float64, len(w))
	ikeys := make([]float64, len(w2))
	for i := range w {
		keys[i] = c20Key(w[i], rand.Float64())
		if i == j {
			for t := range w2 {
				ikeys[t] = c20Key(w2[t], rand.Float64())
			}
		}
	}
	return keys, ikeys
}

func tokIndex(toks []string, from int, what string) int {
	for i := from; i < len(toks); i++ {
		if toks[i] == what {
			return i
		}
	}
	panic("HARNESS: marker " + what + " missing")
}

func checkRanks(keys []float64, ranks []int) string {
	if len(ranks) != len(keys) {
		return "RANK-MISMATCH count"
	}
	for i, r := range signedRanks(keys) {
		if r != ranks[i] {
			return "RANK-MISMATCH the ranks of the case are not those of the replayed keys"
		}
	}
	return ""
}

func init() {
	register("c20keysN", func(toks []string) string {
		seed := int64(atoi(toks[1]))
		n, j, n2 := atoi(toks[2]), atoi(toks[3]), atoi(toks[4])
		p2 := tokIndex(toks, 6, "W2")
		w, w2 := parseFloats(toks[6:p2]), parseFloats(toks[p2+1:])
		if toks[5] != "W" || len(w) != n || len(w2) != n2 {
			panic("HARNESS: bad c20keysN case")
		}
		k1, i1 := refKeysNested(seed, w, j, w2)
		k2, i2 := refKeysNested(seed, w, j, w2)
		if fmtKeys(k1) != fmtKeys(k2) || fmtKeys(i1) != fmtKeys(i2) {
			return "NONDETERMINISTIC-RAND rand.Seed does not make the global generator reproducible"
		}
		return "keys=" + fmtKeys(k1) + " ikeys=" + fmtKeys(i1)
	})
	register("c20N", func(toks []string) string {
		seed := int64(atoi(toks[1]))
		k, n, j, k2, n2 := atoi(toks[2]), atoi(toks[3]), atoi(toks[4]), atoi(toks[5]), atoi(toks[6])
		if toks[7] != "W" {
			panic("HARNESS: bad c20N case")
		}
		pr := tokIndex(toks, 8, "R")
		pw2 := tokIndex(toks, pr, "W2")
		pr2 := tokIndex(toks, pw2, "R2")
		w, ranks := parseFloats(toks[8:pr]), ints(toks[pr+1:pw2])
		w2, ranks2 := parseFloats(toks[pw2+1:pr2]), ints(toks[pr2+1:])
		if len(w) != n || len(w2) != n2 {
			panic("HARNESS: bad c20N weight count")
		}
		keys, ikeys := refKeysNested(seed, w, j, w2)
		if msg := checkRanks(keys, ranks); msg != "" {
			return msg
		}
		if msg := checkRanks(ikeys, ranks2); msg != "" {
			return msg + " (inner)"
		}
		calls, icalls := 0, 0
		var inner []int
		rand.Seed(seed)
		res := randx.WeightedSampling(k, n, func(i int) float64 {
			calls++
			if i == j {
				inner = randx.WeightedSampling(k2, n2, func(t int) float64 {
					icalls++
					return w2[t]
				})
			}
			return w[i]
		})
		return fmt.Sprintf("r=%s ir=%s keys=%s ikeys=%s calls=%d icalls=%d", fmtInts(res), fmtInts(inner), fmtKeys(keys), fmtKeys(ikeys), calls, icalls)
	})
	register("c20G", func(toks []string) string {
		parts := splitBar(toks[1:])
		procs, reps := atoi(parts[0][0]), atoi(parts[0][1])
		if procs > 0 {
			defer runtime.GOMAXPROCS(runtime.GOMAXPROCS(procs))
		}
		subs := parts[1:]
		outs := make([]string, len(subs))
		var wg sync.WaitGroup
		start := make(chan struct{})
		for g := range subs {
			wg.Add(1)
			go func(g int) {
				defer wg.Done()
				t := subs[g]
				k, n := atoi(t[0]), atoi(t[1])
				w := parseFloats(t[3:])
				<-start
				var rs []string
				for r := 0; r < reps; r++ {
					rs = append(rs, func() (res string) {
						defer func() {
							if e := recover(); e != nil {
								res = "PANIC " + strings.ReplaceAll(fmt.Sprint(e), "\n", " ")
							}
						}()
						return "r=" + fmtInts(randx.WeightedSampling(k, n, func(i int) float64 {
							runtime.Gosched()
							return w[i]
						}))
					}())
				}
				outs[g] = strings.Join(rs, ";")
			}(g)
		}
		close(start)
		wg.Wait()
		return strings.Join(outs, " | ")
	})
}
