package main

// C19 -- aesx. Implementation-side case handlers.
//
//	c19E <opts> <key> <arr> <off> <len> <cap>   Encrypt(arr[off:off+len:off+cap]) then Decrypt
//	c19D <opts> <key> <arr> <off> <len> <cap>   Decrypt(arr[off:off+len:off+cap]) (arbitrary bytes)
//	c19C <opts> <key> <pt>...                   one cipher shared by 16 goroutines
//
// <opts> is "-" or a comma list of cbc | cfb | iv=<hex> applied in that order; hex strings
// use "-" for the empty string. Besides the aesx answers the handlers print "ref=": the
// same encryption built directly from crypto/aes + crypto/cipher (mode and IV decided by
// the harness from the documented meaning of the options), used by the monitors.

import (
	"bytes"
	"crypto/aes"
	"crypto/cipher"
	"encoding/hex"
	"fmt"
	"strings"
	"sync"
	"sync/atomic"
	"time"

	"github.com/lixianmin/got/aesx"
)

func c19hex(s string) []byte {
	if s == "-" {
		return []byte{}
	}
	b, err := hex.DecodeString(s)
	if err != nil {
		panic("bad hex " + s)
	}
	return b
}

func c19show(b []byte) string {
	if len(b) == 0 {
		return "-"
	}
	return hex.EncodeToString(b)
}

// IV slices handed to WithInitialVector and their contents at that time (the cipher keeps
// the caller's slice; it must never write to it)
var c19ivs [][2][]byte

func c19ivsUntouched() bool {
	for _, p := range c19ivs {
		if !bytes.Equal(p[0], p[1]) {
			return false
		}
	}
	return true
}

// c19opts returns the aesx options and, independently, the mode/IV they are documented to select.
func c19opts(s string) (opts []aesx.Option, cfb bool, iv []byte) {
	c19ivs = c19ivs[:0]
	iv = []byte{0, 1, 2, 3, 4, 5, 6, 7, 8, 9, 10, 11, 12, 13, 14, 15}
	if s == "-" {
		return
	}
	for _, o := range strings.Split(s, ",") {
		switch {
		case o == "cbc":
			opts = append(opts, aesx.WithCBC())
			cfb = false
		case o == "cfb":
			opts = append(opts, aesx.WithCFB())
			cfb = true
		case strings.HasPrefix(o, "iv="):
			v := o[3:]
			if v == "" {
				v = "-"
			}
			b := c19hex(v)
			c19ivs = append(c19ivs, [2][]byte{b, append([]byte{}, b...)})
			opts = append(opts, aesx.WithInitialVector(b))
			if len(b) != 0 {
				iv = append([]byte{}, b...)
			}
		default:
			panic("bad option " + o)
		}
	}
	return
}

// c19ref is the standard construction: AES-CBC with PKCS#7 padding / AES-CFB (segment size 128).
func c19ref(key, iv, plain []byte, cfb bool) string {
	if (len(key) != 16 && len(key) != 24 && len(key) != 32) || len(iv) != 16 {
		return "none"
	}
	block, err := aes.NewCipher(key)
	if err != nil {
		return "none"
	}
	if cfb {
		out := make([]byte, len(plain))
		cipher.NewCFBEncrypter(block, iv).XORKeyStream(out, plain)
		return c19show(out)
	}
	n := 16 - len(plain)%16
	padded := make([]byte, 0, len(plain)+n)
	padded = append(padded, plain...)
	for i := 0; i < n; i++ {
		padded = append(padded, byte(n))
	}
	out := make([]byte, len(padded))
	cipher.NewCBCEncrypter(block, iv).CryptBlocks(out, padded)
	return c19show(out)
}

// c19call runs f and reports a panic as ok=false.
func c19call(f func() []byte) (out []byte, ok bool) {
	defer func() {
		if r := recover(); r != nil {
			out, ok = nil, false
		}
	}()
	return f(), true
}

func c19arr(before, after []byte) string {
	if bytes.Equal(before, after) {
		return "same"
	}
	return c19show(after)
}

func c19new(key []byte, opts []aesx.Option) (c aesx.ICipher, ok bool) {
	defer func() {
		if r := recover(); r != nil {
			c, ok = nil, false
		}
	}()
	return aesx.NewCipher(key, opts...), true
}

func init() {
	register("c19E", func(toks []string) string {
		opts, cfb, iv := c19opts(toks[1])
		key := c19hex(toks[2])
		arr := c19hex(toks[3])
		off, n, cp := atoi(toks[4]), atoi(toks[5]), atoi(toks[6])
		before := append([]byte{}, arr...)
		keyBefore := append([]byte{}, key...)
		in := arr[off : off+n : off+cp]
		plain := append([]byte{}, in...)
		ref := c19ref(key, iv, plain, cfb)
		c, ok := c19new(key, opts)
		if !ok {
			return "new=panic ref=" + ref
		}
		ct, ok := c19call(func() []byte { return c.Encrypt(in) })
		if !ok {
			return fmt.Sprintf("new=ok enc=panic arr=%s ref=%s", c19arr(before, arr), ref)
		}
		res := fmt.Sprintf("new=ok enc=%s arr=%s", c19show(ct), c19arr(before, arr))
		// decrypt from a view with guard bytes and spare capacity
		lay := make([]byte, 0, len(ct)+10)
		lay = append(lay, 0xa5, 0xa5, 0xa5)
		lay = append(lay, ct...)
		lay = append(lay, 0x5a, 0x5a, 0x5a, 0x5a, 0x5a, 0x5a, 0x5a)
		layBefore := append([]byte{}, lay...)
		dec, ok := c19call(func() []byte { return c.Decrypt(lay[3 : 3+len(ct) : 3+len(ct)+4]) })
		if !ok {
			res += " dec=panic"
		} else {
			res += " dec=" + c19show(dec)
		}
		if bytes.Equal(lay, layBefore) && bytes.Equal(key, keyBefore) && c19ivsUntouched() {
			res += " ctarr=same"
		} else {
			res += " ctarr=changed"
		}
		return res + " ref=" + ref
	})

	register("c19D", func(toks []string) string {
		opts, _, _ := c19opts(toks[1])
		key := c19hex(toks[2])
		arr := c19hex(toks[3])
		off, n, cp := atoi(toks[4]), atoi(toks[5]), atoi(toks[6])
		before := append([]byte{}, arr...)
		in := arr[off : off+n : off+cp]
		c, ok := c19new(key, opts)
		if !ok {
			return "new=panic"
		}
		dec, ok := c19call(func() []byte { return c.Decrypt(in) })
		if !ok {
			return fmt.Sprintf("new=ok dec=panic arr=%s", c19arr(before, arr))
		}
		return fmt.Sprintf("new=ok dec=%s arr=%s", c19show(dec), c19arr(before, arr))
	})

	register("c19C", func(toks []string) string {
		opts, cfb, iv := c19opts(toks[1])
		key := c19hex(toks[2])
		var pts [][]byte
		for _, t := range toks[3:] {
			pts = append(pts, c19hex(t))
		}
		c, ok := c19new(key, opts)
		if !ok {
			return "new=panic"
		}
		// sequential answers
		cts := make([][]byte, len(pts))
		var seq, refs []string
		decok := "ok"
		for i, p := range pts {
			cts[i] = c.Encrypt(p)
			seq = append(seq, c19show(cts[i]))
			refs = append(refs, c19ref(key, iv, p, cfb))
			if !bytes.Equal(c.Decrypt(cts[i]), p) {
				decok = fmt.Sprintf("bad@%d", i)
			}
		}
		// 16 goroutines share the cipher object
		var bad int64
		var wg sync.WaitGroup
		for g := 0; g < 16; g++ {
			wg.Add(1)
			go func(g int) {
				defer wg.Done()
				defer func() {
					if r := recover(); r != nil {
						atomic.AddInt64(&bad, 1)
					}
				}()
				for rep := 0; rep < 4; rep++ {
					for k := range pts {
						i := (k + g) % len(pts)
						ct := c.Encrypt(pts[i])
						if !bytes.Equal(ct, cts[i]) {
							atomic.AddInt64(&bad, 1)
						}
						if !bytes.Equal(c.Decrypt(ct), pts[i]) {
							atomic.AddInt64(&bad, 1)
						}
					}
				}
			}(g)
		}
		wg.Wait()
		// first use of a FRESH cipher object by several goroutines at the same instant (anything the object
		// sets up lazily on its first call must be safe): a new object per round, goroutines released together
		for round := 0; round < 40 && len(pts) > 0; round++ {
			c2, ok2 := c19new(key, opts)
			if !ok2 {
				atomic.AddInt64(&bad, 1)
				break
			}
			var ready, fwg sync.WaitGroup
			start := make(chan struct{})
			for g := 0; g < 4; g++ {
				ready.Add(1)
				fwg.Add(1)
				go func(g int) {
					defer fwg.Done()
					defer func() {
						if r := recover(); r != nil {
							atomic.AddInt64(&bad, 1)
						}
					}()
					i := (round + g) % len(pts)
					ready.Done()
					<-start
					ct := c2.Encrypt(pts[i])
					if !bytes.Equal(ct, cts[i]) || !bytes.Equal(c2.Decrypt(ct), pts[i]) {
						atomic.AddInt64(&bad, 1)
					}
				}(g)
			}
			ready.Wait()
			close(start)
			fwg.Wait()
		}
		conc := "ok"
		if bad != 0 {
			conc = fmt.Sprintf("mismatch:%d", bad)
		}
		// the shared object after ONE caller handed it an input outside the property (a ciphertext that is not a whole number
		// of blocks; the call may panic -- recovered -- or return anything): the other callers' valid calls still return, with
		// the same answers
		if len(pts) > 0 {
			func() {
				defer func() { _ = recover() }()
				c.Decrypt(make([]byte, 15))
			}()
			var bad2 int64
			fin := make(chan struct{})
			go func() {
				var w2 sync.WaitGroup
				for g := 0; g < 4; g++ {
					w2.Add(1)
					go func(g int) {
						defer w2.Done()
						defer func() {
							if r := recover(); r != nil {
								atomic.AddInt64(&bad2, 1)
							}
						}()
						for k := range pts {
							i := (k + g) % len(pts)
							ct := c.Encrypt(pts[i])
							if !bytes.Equal(ct, cts[i]) || !bytes.Equal(c.Decrypt(ct), pts[i]) {
								atomic.AddInt64(&bad2, 1)
							}
						}
					}(g)
				}
				w2.Wait()
				close(fin)
			}()
			select {
			case <-fin:
				if conc == "ok" && bad2 != 0 {
					conc = fmt.Sprintf("mismatch-after-rejected-call:%d", bad2)
				}
			case <-time.After(20 * time.Second):
				if conc == "ok" {
					conc = "hang-after-rejected-call"
				}
			}
		}
		return fmt.Sprintf("new=ok seq=%s dec=%s conc=%s ref=%s", strings.Join(seq, ","), decok, conc, strings.Join(refs, ","))
	})
}
