package main

import (
	"strconv"
	"strings"
)

func atoi(s string) int {
	v, err := strconv.ParseInt(s, 10, 64)
	if err != nil {
		panic("bad int " + s)
	}
	return int(v)
}

func ints(toks []string) []int {
	r := make([]int, len(toks))
	for i, t := range toks {
		r[i] = atoi(t)
	}
	return r
}

func fmtInts(l []int) string {
	var sb strings.Builder
	sb.WriteByte('[')
	for i, v := range l {
		if i > 0 {
			sb.WriteByte(',')
		}
		sb.WriteString(strconv.Itoa(v))
	}
	sb.WriteByte(']')
	return sb.String()
}
