package main

// C12: arbitrary bytes, arbitrary read calls. Observables per call: value / error identity /
// panic, Position(), Len(), bytes allocated during the call (TotalAlloc delta; the harness
// is single-goroutine while a case runs).

import (
	"encoding/binary"
	"fmt"
	"runtime"
	"runtime/debug"
	"strings"

	"github.com/lixianmin/got/iox"
)

// hugeAllocs counts calls that allocated more than octHuge bytes (only a defective ReadBytes
// does: a hostile length prefix). After octHugeMax of them, further hostile-prefix calls are
// not executed any more ("GUARD"), so a broken tree cannot exhaust the machine.
var hugeAllocs int
var c12Cases int

const octHuge = 64 << 20
const octHugeMax = 4

func init() {
	// c12 <hex|-> <op> ... ; ops: sb sy sh si sl (stream) rb ry rh ri rl (reader) v B S n<k>
	register("c12", octKeptWrap(func(toks []string) string {
		var input = unhex(toks[1])
		var stream = &iox.OctetsStream{}
		_ = stream.Write(input)
		var reader = iox.NewOctetsReader(stream)
		var mt = &octMeter{on: true}
		// no background GC cycle while TotalAlloc deltas are taken (collected explicitly now and then)
		var oldGC = debug.SetGCPercent(-1)
		defer debug.SetGCPercent(oldGC)
		c12Cases++
		if c12Cases%4096 == 0 {
			runtime.GC()
		}
		var rs []string
		for _, op := range toks[2:] {
			var viaStream = op[0] == 's'
			var typ = op[len(op)-1]
			var n = 0
			if op[0] == 'n' {
				typ = 'n'
				n = atoi(op[1:])
			}
			if (typ == 'B' || typ == 'S') && hugeAllocs >= octHugeMax && hostilePrefix(stream) {
				rs = append(rs, fmt.Sprintf("GUARD@%d/%d+0", stream.Position(), stream.Len()))
				continue
			}
			var before = stream.Position()
			mt.done = false
			var r = octCall(func() string { return octRead(stream, reader, viaStream, typ, n, mt) })
			var d = mt.delta()
			if d > octHuge {
				hugeAllocs++
				runtime.GC()
				debug.FreeOSMemory()
			} else if d > 0 {
				// TotalAlloc also counts sporadic allocations of the runtime itself: repeat the same call
				// on a fresh stream in the same state and keep the smallest delta (a call that allocates
				// does so every time)
				for rep := 0; rep < 2 && d > 0; rep++ {
					var s2 = &iox.OctetsStream{}
					_ = s2.Write(input)
					if before > 0 {
						_, _ = s2.Read(make([]byte, before))
					}
					var r2 = iox.NewOctetsReader(s2)
					mt.done = false
					var again = octCall(func() string { return octRead(s2, r2, viaStream, typ, n, mt) })
					if again != r || s2.Position() != stream.Position() {
						break // not the same state after all (cannot happen for a deterministic reader)
					}
					if d2 := mt.delta(); mt.done && d2 < d {
						d = d2
					}
				}
			}
			rs = append(rs, fmt.Sprintf("%s@%d/%d+%d", r, stream.Position(), stream.Len(), d))
		}
		return "R=" + strings.Join(rs, ";")
	}))
}

// hostilePrefix: the next uvarint announces more than 64 MiB and more than what is left.
func hostilePrefix(stream *iox.OctetsStream) bool {
	var rest = stream.Bytes()
	var v, k = binary.Uvarint(rest)
	if k <= 0 {
		return false
	}
	return v > octHuge && v > uint64(len(rest)-k)
}
