package main

// C12: arbitrary bytes, arbitrary read calls. Observables per call: value / error identity /
// panic, Position(), Len(), bytes allocated during the call (TotalAlloc delta; the harness
// is single-goroutine while a case runs).

import (
	"encoding/binary"
	"fmt"
	"runtime"
	"runtime/debug"
	"strings"

	"github.com/lixianmin/got/iox"
)

// hugeAllocs counts calls that allocated more than octHuge bytes (only a defective ReadBytes
// does: a hostile length prefix). After octHugeMax of them, further hostile-prefix calls are
// not executed any more ("GUARD"), so a broken tree cannot exhaust the machine.
var hugeAllocs int

const octHuge = 64 << 20
const octHugeMax = 4

func init() {
	// c12 <hex|-> <op> ... ; ops: sb sy sh si sl (stream) rb ry rh ri rl (reader) v B S n<k>
	register("c12", func(toks []string) string {
		var input = unhex(toks[1])
		var stream = &iox.OctetsStream{}
		_ = stream.Write(input)
		var reader = iox.NewOctetsReader(stream)
		var mt = &octMeter{on: true}
		var rs []string
		for _, op := range toks[2:] {
			var viaStream = op[0] == 's'
			var typ = op[len(op)-1]
			var n = 0
			if op[0] == 'n' {
				typ = 'n'
				n = atoi(op[1:])
			}
			if (typ == 'B' || typ == 'S') && hugeAllocs >= octHugeMax && hostilePrefix(stream) {
				rs = append(rs, fmt.Sprintf("GUARD@%d/%d+0", stream.Position(), stream.Len()))
				continue
			}
			mt.done = false
			var r = octCall(func() string { return octRead(stream, reader, viaStream, typ, n, mt) })
			var d = mt.delta()
			if d > octHuge {
				hugeAllocs++
				runtime.GC()
				debug.FreeOSMemory()
			}
			rs = append(rs, fmt.Sprintf("%s@%d/%d+%d", r, stream.Position(), stream.Len(), d))
		}
		return "R=" + strings.Join(rs, ";")
	})
}

// hostilePrefix: the next uvarint announces more than 64 MiB and more than what is left.
func hostilePrefix(stream *iox.OctetsStream) bool {
	var rest = stream.Bytes()
	var v, k = binary.Uvarint(rest)
	if k <= 0 {
		return false
	}
	return v > octHuge && v > uint64(len(rest)-k)
}
