package main

import (
	"fmt"

	"github.com/lixianmin/got/sortx"
)

func init() {
	// c14T n b e : threshold predicates less(k) = k<b, equal(k) = b<=k<e
	register("c14T", func(toks []string) string {
		n, b, e := atoi(toks[1]), atoi(toks[2]), atoi(toks[3])
		var lp, ep []int
		r := sortx.Search(n, func(k int) bool { lp = append(lp, k); return k < b },
			func(k int) bool { ep = append(ep, k); return b <= k && k < e })
		return fmt.Sprintf("r=%d lp=%s ep=%s", r, fmtInts(lp), fmtInts(ep))
	})
	list := func(desc bool) handler {
		return func(toks []string) string {
			t := atoi(toks[1])
			l := ints(toks[2:])
			var lp, ep []int
			// out-of-range probes are recorded (and answered false) instead of indexing
			r := sortx.Search(len(l), func(k int) bool {
				lp = append(lp, k)
				if k < 0 || k >= len(l) {
					return false
				}
				if desc {
					return l[k] > t
				}
				return l[k] < t
			}, func(k int) bool {
				ep = append(ep, k)
				if k < 0 || k >= len(l) {
					return false
				}
				return l[k] == t
			})
			return fmt.Sprintf("r=%d lp=%s ep=%s", r, fmtInts(lp), fmtInts(ep))
		}
	}
	register("c14A", list(false))
	register("c14D", list(true))
}
