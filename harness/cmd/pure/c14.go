package main

import (
	"fmt"

	"github.com/lixianmin/got/sortx"
)

// probeCap bounds the number of predicate evaluations the harness tolerates (the property
// allows O(log n), i.e. at most a few hundred for any int): beyond it the call is aborted and
// reported, so that a linear scan over 2^62 elements or a non-terminating loop cannot hang the
// check.
const probeCap = 4096

func capProbes(l []int) {
	if len(l) > probeCap {
		panic(fmt.Sprintf("more than %d predicate evaluations (last index %d)", probeCap, l[len(l)-1]))
	}
}

func init() {
	// c14T n b e : threshold predicates less(k) = k<b, equal(k) = b<=k<e
	register("c14T", func(toks []string) string {
		n, b, e := atoi(toks[1]), atoi(toks[2]), atoi(toks[3])
		var lp, ep []int
		r := sortx.Search(n, func(k int) bool { lp = append(lp, k); capProbes(lp); return k < b },
			func(k int) bool { ep = append(ep, k); capProbes(ep); return b <= k && k < e })
		return fmt.Sprintf("r=%d lp=%s ep=%s", r, fmtInts(lp), fmtInts(ep))
	})
	// c14N: as c14T, but both predicates call sortx.Search themselves (a rank lookup in another sorted
	// virtual list) while the outer Search is running: a call must not disturb the call it is nested in
	register("c14N", func(toks []string) string {
		n, b, e := atoi(toks[1]), atoi(toks[2]), atoi(toks[3])
		const m = 37
		innerBad := 0
		inner := func(k int) {
			bb := k % (m + 1)
			if bb < 0 {
				bb = -bb
			}
			got := sortx.Search(m, func(j int) bool { return j < bb }, func(j int) bool { return j == bb })
			want := bb
			if bb == m {
				want = ^m
			}
			if got != want {
				innerBad++
			}
		}
		var lp, ep []int
		r := sortx.Search(n, func(k int) bool { lp = append(lp, k); capProbes(lp); inner(k); return k < b },
			func(k int) bool { ep = append(ep, k); capProbes(ep); inner(k); return b <= k && k < e })
		if innerBad > 0 {
			return fmt.Sprintf("r=%d lp=%s ep=%s INNER-WRONG=%d", r, fmtInts(lp), fmtInts(ep), innerBad)
		}
		return fmt.Sprintf("r=%d lp=%s ep=%s", r, fmtInts(lp), fmtInts(ep))
	})
	list := func(desc bool) handler {
		return func(toks []string) string {
			t := atoi(toks[1])
			l := ints(toks[2:])
			var lp, ep []int
			// out-of-range probes are recorded (and answered false) instead of indexing
			r := sortx.Search(len(l), func(k int) bool {
				lp = append(lp, k)
				capProbes(lp)
				if k < 0 || k >= len(l) {
					return false
				}
				if desc {
					return l[k] > t
				}
				return l[k] < t
			}, func(k int) bool {
				ep = append(ep, k)
				capProbes(ep)
				if k < 0 || k >= len(l) {
					return false
				}
				return l[k] == t
			})
			return fmt.Sprintf("r=%d lp=%s ep=%s", r, fmtInts(lp), fmtInts(ep))
		}
	}
	register("c14A", list(false))
	register("c14D", list(true))
}
