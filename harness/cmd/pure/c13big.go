package main

import (
	"bytes"
	"fmt"
	"io"

	"github.com/lixianmin/got/iox"
)

// c13G <B|S> op...      ops: w<n> Write of n bytes, r<n> Read into an n-byte slice, t Tidy
//
// Monitor-only scenario for buffers of a megabyte and more (the extracted model answers such cases in tens of
// seconds, so they are not replayed by it): after every op the unread content (Bytes() of the Buffer, the bytes
// from the cursor on for the OctetsStream) is compared with a plain []byte reference kept here, and no op may
// panic. Data byte k of the whole written sequence is k%251.
// Output: ok ops=<n> maxlen=<largest unread length> | bad@<op index> <what> | PANIC@<op index> <value>
func init() {
	register("c13G", func(toks []string) (res string) {
		kind := toks[1]
		var ref []byte
		var b iox.Buffer
		var s iox.OctetsStream
		written := 0
		maxlen := 0
		k := 0
		defer func() {
			if r := recover(); r != nil {
				res = fmt.Sprintf("PANIC@%d %v", k, r)
			}
		}()
		for k = 2; k < len(toks); k++ {
			op := toks[k]
			switch op[0] {
			case 'w':
				n := atoi(op[1:])
				data := make([]byte, n)
				for i := range data {
					data[i] = byte((written + i) % 251)
				}
				written += n
				ref = append(ref, data...)
				if kind == "B" {
					if m, err := b.Write(data); m != n || err != nil {
						return fmt.Sprintf("bad@%d Write(%d bytes) = %d, %v", k, n, m, err)
					}
				} else {
					pos, _ := s.Seek(0, io.SeekCurrent)
					if err := s.Write(data); err != nil {
						return fmt.Sprintf("bad@%d Write(%d bytes) = %v", k, n, err)
					}
					if p2, _ := s.Seek(0, io.SeekCurrent); p2 != pos {
						return fmt.Sprintf("bad@%d Write moved the cursor from %d to %d", k, pos, p2)
					}
				}
			case 'r':
				n := atoi(op[1:])
				buf := make([]byte, n)
				var m int
				if kind == "B" {
					m, _ = b.Read(buf)
				} else {
					m, _ = s.Read(buf)
				}
				want := n
				if want > len(ref) {
					want = len(ref)
				}
				if m != want || !bytes.Equal(buf[:m], ref[:m]) {
					return fmt.Sprintf("bad@%d Read(%d) returned %d bytes (want %d) or wrong content", k, n, m, want)
				}
				ref = ref[m:]
			case 't':
				if kind == "B" {
					b.Tidy()
				} else {
					s.Tidy()
				}
			}
			var unread []byte
			if kind == "B" {
				unread = b.Bytes()
			} else {
				unread = s.Bytes()
			}
			if !bytes.Equal(unread, ref) {
				return fmt.Sprintf("bad@%d unread content: %d bytes, want %d (or different bytes)", k, len(unread), len(ref))
			}
			if len(ref) > maxlen {
				maxlen = len(ref)
			}
		}
		return fmt.Sprintf("ok ops=%d maxlen=%d", len(toks)-2, maxlen)
	})
}
