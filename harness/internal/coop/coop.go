// Package coop is a cooperative scheduler over the verif-tag yield points of
// lixianmin/got (DESIGN.md 4.2). Each logical thread is a goroutine that parks at every
// yield; exactly one runs at a time, so "schedule = list of thread ids" is executed
// deterministically by the real code. One Step = resume the thread, let it perform the
// shared access it is parked at plus the local computation up to its next yield (or up
// to the return of its current operation).
package coop

import (
	"fmt"
	"runtime"
)

// gid returns the id of the calling goroutine (parsed from the stack header). It is used
// only to tell the goroutine of the thread being stepped from any other goroutine that
// reaches a yield site (one spawned by the library itself, e.g. by a changed AfterFunc).
func gid() uint64 {
	var buf [64]byte
	n := runtime.Stack(buf[:], false)
	var id uint64
	for _, c := range buf[len("goroutine "):n] {
		if c < '0' || c > '9' {
			break
		}
		id = id*10 + uint64(c-'0')
	}
	return id
}

// Kinds of step outcome.
const (
	KYield   = iota // parked at a yield site (Site)
	KRet            // the current operation returned (Val)
	KDone           // thread has no more operations (nothing was executed)
	KBlocked        // thread is disabled (e.g. parked before a held mutex); nothing executed
	KPanic          // the operation panicked (Val = message); thread is dead
)

type Event struct {
	Kind int
	Site int
	Val  string
}

func (e Event) String() string {
	switch e.Kind {
	case KYield:
		return fmt.Sprintf("y%d", e.Site)
	case KRet:
		return "r:" + e.Val
	case KDone:
		return "done"
	case KBlocked:
		return "blocked"
	default:
		return "panic:" + e.Val
	}
}

// Op is one API call of a logical thread; its return value is rendered as a string.
type Op func() string

type Thread struct {
	ID       int
	ops      []Op
	resume   chan struct{}
	report   chan Event
	finished bool
	dead     bool
	gid      uint64
	// Site the thread is currently parked at (0 = at an operation boundary).
	AtSite int
	// number of steps taken inside the current operation
	Local any
}

type Sched struct {
	Threads []*Thread
	cur     *Thread
	// Blocked, when set, is asked before resuming a parked thread; true = disabled.
	Blocked func(t *Thread) bool
	// OnEvent, when set, sees every event of every step (owner tracking etc.).
	OnEvent func(t *Thread, e Event)
	// Foreign counts goroutines that are not logical threads of this scheduler but reached a
	// yield site while a thread was being stepped (goroutines the library spawned itself). They
	// are parked for ever: "this goroutine is delayed arbitrarily long" is a legal schedule, and
	// the model has no such goroutine, so whatever it was supposed to do never happens.
	Foreign int
	// ForeignFree lets foreign goroutines run through instead (for harnesses whose library code
	// legitimately reaches yield sites from its own goroutines).
	ForeignFree bool
}

// New creates a scheduler; progs[i] is the operation list of thread i. The caller must
// install s.Yield as the library's yield hook before the first Step.
func New(progs [][]Op) *Sched {
	s := &Sched{}
	for i, p := range progs {
		t := &Thread{ID: i, ops: p, resume: make(chan struct{}), report: make(chan Event)}
		s.Threads = append(s.Threads, t)
		go s.loop(t)
	}
	return s
}

func (s *Sched) loop(t *Thread) {
	t.gid = gid()
	for _, op := range t.ops {
		<-t.resume
		ev := s.runOp(op)
		t.report <- ev
		if ev.Kind == KPanic {
			return
		}
	}
}

func (s *Sched) runOp(op Op) (ev Event) {
	defer func() {
		if r := recover(); r != nil {
			ev = Event{Kind: KPanic, Val: fmt.Sprint(r)}
		}
	}()
	return Event{Kind: KRet, Val: op()}
}

// Yield is the hook body: called by the library on the goroutine of the current thread.
func (s *Sched) Yield(site int) {
	t := s.cur
	if t == nil {
		return // unmanaged goroutine (set-up code): run through
	}
	if t.gid != 0 && gid() != t.gid {
		if s.ForeignFree {
			return
		}
		s.Foreign++
		select {} // a goroutine of the library's own: delayed for ever
	}
	t.report <- Event{Kind: KYield, Site: site}
	<-t.resume
}

// Unmanaged runs f with yields disabled (set-up / final inspection by the harness).
func (s *Sched) Unmanaged(f func()) {
	old := s.cur
	s.cur = nil
	f()
	s.cur = old
}

// Step lets thread tid execute one step.
func (s *Sched) Step(tid int) Event {
	if tid < 0 || tid >= len(s.Threads) {
		return Event{Kind: KDone}
	}
	t := s.Threads[tid]
	if t.finished || t.dead {
		return Event{Kind: KDone}
	}
	if s.Blocked != nil && s.Blocked(t) {
		return Event{Kind: KBlocked}
	}
	s.cur = t
	t.resume <- struct{}{}
	ev := <-t.report
	s.cur = nil
	switch ev.Kind {
	case KYield:
		t.AtSite = ev.Site
	case KRet:
		t.AtSite = 0
		t.opsDone()
	case KPanic:
		t.AtSite = 0
		t.dead = true
	}
	if s.OnEvent != nil {
		s.OnEvent(t, ev)
	}
	return ev
}

func (t *Thread) opsDone() {
	t.ops = t.ops[1:]
	if len(t.ops) == 0 {
		t.finished = true
	}
}

// Enabled reports whether a Step of tid would execute something.
func (s *Sched) Enabled(tid int) bool {
	t := s.Threads[tid]
	if t.finished || t.dead {
		return false
	}
	return s.Blocked == nil || !s.Blocked(t)
}

// Finish runs every unfinished thread to completion round-robin (bounded), so that no
// goroutine stays parked. Returns false if the bound was hit (livelock/deadlock).
func (s *Sched) Finish(maxSteps int) bool {
	for n := 0; n < maxSteps; n++ {
		progressed := false
		for i := range s.Threads {
			if s.Enabled(i) {
				s.Step(i)
				progressed = true
			}
		}
		if !progressed {
			all := true
			for _, t := range s.Threads {
				if !t.finished && !t.dead {
					all = false
				}
			}
			return all
		}
	}
	return false
}

// Cur is the thread being stepped (nil outside Step); for yield-hook wrappers.
func (s *Sched) Cur() *Thread { return s.cur }

// ---------------------------------------------------------------------------------------------
// Additions for harnesses that let a logical thread REALLY block inside the library (C16: a
// goroutine inside sync.Mutex.Lock() while the mutex is held, or inside WaitUtil's select). Such a
// thread is "detached": it is not s.cur any more, nobody waits for its report; when the library
// wakes it up it runs on by itself up to its next yield (YieldAs, called by the harness's hook
// wrapper for the goroutine of a detached thread) or to the return of its operation, and its
// event is picked up later by TryEnd. Nothing above this line uses any of it.

// GID is the goroutine id of the caller.
func GID() uint64 { return gid() }

// GID is the goroutine id of the thread (0 before its first step).
func (t *Thread) GID() uint64 { return t.gid }

// Over reports whether the thread has no more operations (or died in a panic).
func (t *Thread) Over() bool { return t.finished || t.dead }

// Begin resumes thread tid and returns at once; the caller then polls TryEnd.
func (s *Sched) Begin(tid int) *Thread {
	t := s.Threads[tid]
	s.cur = t
	t.resume <- struct{}{}
	return t
}

// TryEnd is the second half of Step, non-blocking: if the thread has reported an event the
// bookkeeping of Step is done and the event returned.
func (s *Sched) TryEnd(t *Thread) (Event, bool) {
	select {
	case ev := <-t.report:
		if s.cur == t {
			s.cur = nil
		}
		switch ev.Kind {
		case KYield:
			t.AtSite = ev.Site
		case KRet:
			t.AtSite = 0
			t.opsDone()
		case KPanic:
			t.AtSite = 0
			t.dead = true
		}
		if s.OnEvent != nil {
			s.OnEvent(t, ev)
		}
		return ev, true
	default:
		return Event{}, false
	}
}

// Detach gives up waiting for t's event: it is blocked inside the library.
func (s *Sched) Detach(t *Thread) {
	if s.cur == t {
		s.cur = nil
	}
}

// YieldAs is the yield of a detached thread, called on its own goroutine.
func (s *Sched) YieldAs(t *Thread, site int) {
	t.report <- Event{Kind: KYield, Site: site}
	<-t.resume
}
