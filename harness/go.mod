module verif/harness

go 1.22

require github.com/lixianmin/got v0.0.0

replace github.com/lixianmin/got => /repo
